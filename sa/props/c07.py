"""C07  Poly is an exact commutative ring with evaluation, composition and calculus."""
import ast

from ..core import (AnalysisError, FuncTypes, unparse, short, canon, canon_call, base_name, own_nodes,
                    docstring_free)
from ..ratfun import RF, Evaluator, Inconclusive, sym_pow, opaque
from .. import boolskel
from .. import e4

EXPLANATION = (
    "Static analysis of audiolazy/lazy_poly.py. C07.funnel: the coefficient store _data is written only by __init__, "
    "__setitem__ and the zero setter (and __hash__'s own cache slot), each of which deletes coefficients equal to the "
    "zero value (Streams excepted) - so no zero coefficient can be stored however an operator builds its result, since "
    "every operator returns through the constructor. C07.product/sum: __mul__ stores under the key k1 + k2 the value "
    "v1 * v2 and accumulates into an existing key; __add__ sums the coefficients of common keys and places them last in "
    "the chain; __sub__ is self + (-other); unary templates map the operator over the values keeping keys and zero; "
    "__pow__ arms (0 -> 1, empty, single term (k*n, v**n), general: n-1 copies times self); __truediv__ by scalar / "
    "single-term Poly. C07.calculus (normal forms): diff maps (k, v) -> (k-1, k*v) skipping k = 0, integrate (k, v) -> "
    "(k+1, v/(k+1)) refusing k = -1; diff(integrate) is the identity map and diff is linear in v. C07.eval: Horner step "
    "R' = c + R * x**(p_old - p_new) on both branches, final result * x**last_power, pairs sorted descending; direct "
    "evaluation sum(c * x**p); composition sum(c * q**p); x = 0 shortcut returns the constant term. C07.eq: __eq__ "
    "compares zero and the two stores (same length, every key present with equal value), __ne__ is its complement, "
    "__hash__ reads only those. Lagrange basis term (k - r_k)/(r_j - r_k) over r_k != r_j weighted by y_j. Not decided: "
    "the ring laws on concrete coefficient values (they follow from dict arithmetic of the above)."
    " Also: C07.dispatch (decision tables): which arm of Poly.__init__ (incl. the compaction of one item), __add__, __mul__, __eq__, __truediv__, __pow__, __call__, __hash__ and copy runs for which kind of argument. ")

UNDECIDED = ["associativity/distributivity on concrete values (consequence of the term-wise identities, not re-proved)"]

LP = "lazy_poly"


def _dispatch(chk, repo, mod, W):
    """which arm of the constructor / operators runs for which kind of argument (decision tables, sa/dtable.py)"""
    from ..dtable import Facts, walk, RAISE
    chk.rule("C07.dispatch", "decision tables: the guards of Poly.__init__, __add__, __mul__, __eq__, __truediv__, __pow__, "
                             "__call__, __hash__ and copy are evaluated for every kind of argument (list / dict / Poly / None "
                             "/ number / Stream, zero given or not, 0 / 1 / several terms); the statements that run must be "
                             "the documented ones - whatever the order and spelling of the tests")
    n_tab = 0

    def poly_rebind(name, value, F):
        if isinstance(value, ast.Call) and unparse(value.func) == "Poly":
            F.forget(name)
            F.kinds[name] = {"Poly"}
            F.truths["converted:" + name] = True
        else:
            F.forget(name)


    # ---- constructor: store and zero value per kind of data
    init = repo.find(LP, "Poly.__init__")
    ib = docstring_free(init.body)
    ip = [a.arg for a in init.args.args]
    chk.require(len(ip) == 3, "Poly.__init__ signature unrecognised")
    d_, z_ = ip[1], ip[2]

    def _sec0():
        nonlocal n_tab
        pre = [st for st in ib if not isinstance(st, ast.For)]
        want_store = {"list": ["OrderedDict(enumerate(%s))" % d_], "dict": ["OrderedDict(%s)" % d_],
                      "Poly": ["OrderedDict(%s._data)" % d_, "OrderedDict(iteritems(%s._data))" % d_, "%s._data.copy()" % d_],
                      "None": ["OrderedDict()"], "number": ["OrderedDict([(0, %s)])" % d_, "OrderedDict({0: %s})" % d_,
                                                             "OrderedDict(((0, %s),))" % d_],
                      "Stream": ["OrderedDict([(0, %s)])" % d_, "OrderedDict({0: %s})" % d_, "OrderedDict(((0, %s),))" % d_]}
        kinds_of = {"list": {"list"}, "dict": {"dict"}, "Poly": {"Poly"}, "number": {"float", "Number"}, "Stream": {"Stream", "Iterable"}}
        for dk in ("list", "dict", "Poly", "None", "number", "Stream"):
            for zgiven in (False, True):
                F = Facts(kinds=dict(([(d_, kinds_of[dk])] if dk != "None" else []) + ([(z_, {"float"})] if zgiven else [])),
                          none=([d_] if dk == "None" else []) + ([] if zgiven else [z_]))
                w = walk(pre, F, "Poly.__init__")
                n_tab += 1
                store = zero = None
                for st in w.ran:
                    if isinstance(st, ast.Assign) and len(st.targets) == 1:
                        t = unparse(st.targets[0])
                        if t == "self._data":
                            store = unparse(st.value)
                        elif t in ("self._zero", "self.zero"):
                            zero = unparse(st.value)
                wz = [z_] if zgiven else (["%s._zero" % d_, "%s.zero" % d_] if dk == "Poly" else ["0.0", "0"])
                ok = w.end == "fall" and store in want_store[dk] and zero in wz
                chk.decide(ok, "C07.dispatch", W("Poly.__init__"),
                           "Poly(%s%s): store = %s, zero = %s" % (dk, ", zero" if zgiven else "", store, zero),
                           why="documented: store %s, zero value %s%s" % (want_store[dk][0], wz[0],
                                                                          " (guard raises)" if w.end == "raise" else ""), node=init)

    # ---- constructor: compaction of one (key, value) item
    def _sec1():
        nonlocal n_tab
        loops = [st for st in ib if isinstance(st, ast.For)]
        chk.require(len(loops) == 1 and isinstance(loops[0].target, ast.Tuple) and len(loops[0].target.elts) == 2,
                    "Poly.__init__: compaction loop not found")
        kv, vv = [unparse(e) for e in loops[0].target.elts]
        for kk in ("int", "float-integer", "float"):
            for vk in ("zero", "nonzero", "Stream"):
                F = Facts(kinds={kv: {"float"} if kk != "int" else {"int"}, vv: {"Stream"} if vk == "Stream" else {"float"}},
                          truths={"%s.is_integer()" % kv: kk == "float-integer",
                                  "%s == self.zero" % vv: vk != "nonzero", "%s == self._zero" % vv: vk != "nonzero",
                                  "%s != self.zero" % vv: vk == "nonzero", "%s != self._zero" % vv: vk == "nonzero"},
                          raising=["%s.is_integer()" % kv] if kk == "int" and not hasattr(int, "is_integer") else [])
                if kk == "int" and hasattr(int, "is_integer"):
                    F.truths["%s.is_integer()" % kv] = True      # int.is_integer() exists from Python 3.12 on
                w = walk(loops[0].body, F, "Poly.__init__ compaction")
                n_tab += 1
                t = w.texts()
                dels = t.count("del self._data[%s]" % kv)
                moved = "%s = rint(%s)" % (kv, kv) in t and "self._data[%s] = %s" % (kv, vv) in t
                want_moved = kk == "float-integer"
                want_dropped = vk == "zero"
                # moving deletes the old key first; dropping deletes the (new) key last
                if kk == "int" and moved:
                    # re-keying an int power under its own value is a no-op (3.12: int.is_integer()): tolerated
                    want_moved = True
                ok = w.end == "fall" and moved == want_moved and dels == int(want_moved) + int(want_dropped)
                if ok and want_moved:
                    ok = t.index("del self._data[%s]" % kv) < t.index("%s = rint(%s)" % (kv, kv)) < t.index("self._data[%s] = %s" % (kv, vv))
                if ok and want_dropped:
                    ok = t[-1] == "del self._data[%s]" % kv
                chk.decide(ok, "C07.dispatch", W("Poly.__init__"),
                           "item with %s power and %s coefficient: %s" % (kk, vk, "; ".join(t) or "kept as it is"),
                           why="integer-valued float powers are re-keyed as ints; coefficients equal to the zero value are "
                               "dropped unless they are Streams; everything else is kept", node=loops[0])

    # ---- operators with a Poly / non-Poly operand
    def _sec2():
        nonlocal n_tab
        for name in ("__add__", "__mul__", "__eq__"):
            fn = repo.find(LP, "Poly." + name)
            fb = docstring_free(fn.body)
            o_ = fn.args.args[1].arg
            for ok_kind in ("Poly", "number"):
                F = Facts(kinds={o_: {"Poly"} if ok_kind == "Poly" else {"float"}}, types={"Poly"})
                w = walk(fb, F, "Poly." + name, rebind=poly_rebind, strict=False)
                n_tab += 1
                converted = ok_kind == "Poly"
                bad = None
                for st in w.ran:
                    if isinstance(st, ast.Assign) and len(st.targets) == 1 and unparse(st.targets[0]) == o_:
                        converted = isinstance(st.value, ast.Call) and unparse(st.value.func) == "Poly" \
                            and st.value.args and unparse(st.value.args[0]) == o_
                        continue
                    if not converted and any(isinstance(n, ast.Attribute) and isinstance(n.value, ast.Name) and n.value.id == o_
                                             and n.attr in ("_data", "_zero", "zero", "terms") for n in ast.walk(st)):
                        bad = st
                        break
                chk.decide(bad is None and w.end != "raise" or (w.end == "raise" and w.raised_in_guard is None and bad is None),
                           "C07.dispatch", W("Poly." + name),
                           "%s operand: %s" % (ok_kind, "used as a Poly after conversion" if ok_kind != "Poly" else "used as it is"),
                           why="a non-Poly operand must be wrapped by Poly(..) before its terms are read (%s)"
                               % (short(bad) if bad is not None else "guard raises"), node=fn)

    # ---- division
    def _sec3():
        nonlocal n_tab
        td = repo.find(LP, "Poly.__truediv__")
        tb = docstring_free(td.body)
        o_ = td.args.args[1].arg
        for ok_kind, ln in (("Poly", 0), ("Poly", 1), ("Poly", 2), ("Poly", 5), ("number", None), ("Stream", None)):
            if ok_kind == "Poly":
                F = Facts(kinds={o_: {"Poly"}}, lens={o_: ln, o_ + "._data": ln}, types={"Poly"})
            else:
                F = Facts(kinds={o_: {"float"} if ok_kind == "number" else {"Stream", "Iterable"}}, types={"Poly"},
                          raising=["len(%s)" % o_, "len(%s._data)" % o_])
            w = walk(tb, F, "Poly.__truediv__")
            n_tab += 1
            last = unparse(w.last) if w.last is not None else ""
            allt = "\n".join(w.texts())
            hubbed = "thub(%s, " % o_ in allt
            reads_terms = ("%s._data" % o_) in allt or ("%s.terms()" % o_) in allt
            if ok_kind != "Poly":
                ok = w.end == "return" and hubbed and not reads_terms
                exp = "coefficient-wise division by the (hubbed) operand"
            elif ln == 0:
                ok = w.end == "raise" and "ZeroDivisionError" in last
                exp = "ZeroDivisionError"
            elif ln == 1:
                shifts = any(isinstance(n, ast.BinOp) and isinstance(n.op, ast.Sub) for st in w.ran for n in ast.walk(st))
                ok = w.end == "return" and reads_terms and shifts and not hubbed
                exp = "division by the single term (powers shifted)"
            else:
                ok = w.end == "raise" and "NotImplementedError" in last
                exp = "NotImplementedError"
            chk.decide(ok, "C07.dispatch", W("Poly.__truediv__"),
                       "p / %s%s -> %s" % (ok_kind, "" if ln is None else " with %d term(s)" % ln,
                                            last[:70] or ("guard raises" if w.end == "raise" else "falls through")),
                       why="documented: " + exp, node=td)

    # ---- exponent normalisation of __pow__
    def _sec4():
        nonlocal n_tab
        pw = repo.find(LP, "Poly.__pow__")
        pb = docstring_free(pw.body)
        o_ = pw.args.args[1].arg
        for ek in ("Poly-constant", "Poly-empty", "Poly-general", "int"):
            if ek == "int":
                F = Facts(kinds={o_: {"int"}}, values={o_: 3}, lens={"self._data": 2, "self": 2}, types={"Poly"})
            else:
                terms = {"Poly-constant": [{"k": 0, "v": 3}], "Poly-empty": [], "Poly-general": [{"k": 0, "v": 3}, {"k": 2, "v": 1}]}[ek]
                F = Facts(kinds={o_: {"Poly"}}, lens={"self._data": 2, "self": 2}, types={"Poly"},
                          iters={"%s.terms()" % o_: terms, "iteritems(%s._data)" % o_: terms})

            def pow_rebind(name, value, F_):
                F_.forget(name)
                if name == o_ and unparse(value) == "%s[0]" % o_:
                    F_.kinds[o_] = {"int"}
                    F_.values[o_] = 3
            try:
                w = walk(pb, F, "Poly.__pow__", rebind=pow_rebind)
            except AnalysisError:
                # the generator of the guard names its variables differently: fall back to the names it uses
                raise
            n_tab += 1
            t = w.texts()
            if ek == "Poly-general":
                ok = w.end == "raise" and w.last is not None and "NotImplementedError" in unparse(w.last)
                exp = "NotImplementedError"
            elif ek == "int":
                ok = "%s = %s[0]" % (o_, o_) not in t and w.end == "return"
                exp = "the exponent is used as it is"
            else:
                ok = "%s = %s[0]" % (o_, o_) in t and w.end in ("return",)
                exp = "the exponent is the constant term of the Poly"
            chk.decide(ok, "C07.dispatch", W("Poly.__pow__"), "p ** <%s>: %s" % (ek, "; ".join(t)[:90] or w.end),
                       why="documented: " + exp, node=pw)

    # ---- copy / diff defaults, hash
    def _sec5():
        nonlocal n_tab
        cp = repo.find(LP, "Poly.copy")
        zname = cp.args.args[1].arg if len(cp.args.args) > 1 else "zero"
        for zgiven in (False, True):
            F = Facts(kinds={zname: {"float"}} if zgiven else {}, none=[] if zgiven else [zname])
            w = walk(docstring_free(cp.body), F, "Poly.copy")
            n_tab += 1
            kw = None
            if w.last is not None and isinstance(w.last.value, ast.Call):
                kws = [k.value for k in w.last.value.keywords if k.arg == "zero"]
                kw = unparse(kws[0]) if kws else (unparse(w.last.value.args[1]) if len(w.last.value.args) > 1 else None)
            chk.decide(kw in ([zname] if zgiven else ["self.zero", "self._zero"]), "C07.dispatch", W("Poly.copy"),
                       "copy(%s) -> zero = %s" % ("zero" if zgiven else "", kw),
                       why="a copy keeps the zero value unless a new one is given", node=cp)
        df = repo.find(LP, "Poly.diff")
        dd = df.args.defaults
        chk.decide(len(dd) == 1 and isinstance(dd[0], ast.Constant) and dd[0].value == 1, "C07.dispatch", W("Poly.diff"),
                   "diff() default order = %s" % (unparse(dd[0]) if dd else "?"), why="diff() is the first derivative", node=df)
        hs = repo.find(LP, "Poly.__hash__")
        for has in (False, True):
            F = Facts(truths={"hasattr(self, '_hash')": has})
            w = walk(docstring_free(hs.body), F, "Poly.__hash__")
            n_tab += 1
            sets = any(isinstance(st, ast.Assign) and unparse(st.targets[0]) == "self._hash" for st in w.ran)
            chk.decide(w.end == "return" and unparse(w.last.value) == "self._hash" and (sets or has), "C07.dispatch", W("Poly.__hash__"),
                       "hash %s: %s" % ("already taken" if has else "first taken", "; ".join(w.texts())[:100]),
                       why="the first hash() computes and stores the value that every later one returns", node=hs)

    # ---- evaluation: which scheme for which request
    def _sec6():
        nonlocal n_tab
        call = repo.find(LP, "Poly.__call__")
        cb = docstring_free(call.body)
        cpar = [a.arg for a in call.args.args]
        v_, h_ = cpar[1], cpar[2] if len(cpar) > 2 else "horner"
        for hval, ispoly in ((True, True), (True, False), (False, True), (False, False), ("auto", True), ("auto", False)):
            F = Facts(kinds={v_: {"float"}}, truths={"%s == 0" % v_: False, "%s != 0" % v_: True},
                      lens={"self._data": 3, "self": 3}, values={h_: hval}, types={"Poly", "Stream"})

            def call_rebind(name, value, F_, ispoly=ispoly):
                F_.forget(name)
                if name == h_ and unparse(value) == "self.is_polynomial()":
                    F_.values[h_] = ispoly
            w = walk(cb, F, "Poly.__call__", rebind=call_rebind)
            n_tab += 1
            last = unparse(w.last) if w.last is not None else ""
            want_horner = hval is True or (hval == "auto" and ispoly)
            is_horner = "last_power" in last
            is_direct = last.startswith("return sum(") and "self.terms()" in last
            chk.decide(w.end == "return" and (is_horner if want_horner else is_direct), "C07.dispatch", W("Poly.__call__"),
                       "p(x, horner=%r) on a %s -> %s" % (hval, "polynomial" if ispoly else "Laurent/other sum", last[:60]),
                       why="horner=True forces the Horner scheme, False the direct sum, 'auto' picks Horner only for "
                           "polynomials", node=call)
        for vk in ("zero", "Stream", "Poly"):
            F = Facts(kinds={v_: {"float"} if vk == "zero" else {vk} | ({"Iterable"} if vk == "Stream" else set())},
                      truths={"%s == 0" % v_: True, "%s != 0" % v_: False},      # Stream == 0 is a (true) Stream: must not be asked
                      lens={"self._data": 3, "self": 3}, values={h_: False}, types={"Poly", "Stream"})
            w = walk(cb, F, "Poly.__call__", rebind=lambda n, v, F_: F_.forget(n))
            n_tab += 1
            last = unparse(w.last) if w.last is not None else ""
            if vk == "zero":
                ok = last == "return self[0]"
            elif vk == "Stream":
                ok = last.startswith("return sum(") and any(unparse(st).startswith("%s = thub(%s, " % (v_, v_)) for st in w.ran)
            else:
                ok = last.startswith("return Poly(sum(")
            chk.decide(ok, "C07.dispatch", W("Poly.__call__"), "p(<%s>) -> %s" % (vk, last[:60]),
                       why="p(0) is the constant term, p(q) a composition, p(stream) a hubbed term sum", node=call)
        F = Facts(kinds={v_: {"float"}}, truths={"%s == 0" % v_: False}, lens={"self._data": 0, "self": 0}, values={h_: "auto"},
                  types={"Poly", "Stream"})
        w = walk(cb, F, "Poly.__call__", rebind=lambda n, v, F_: F_.forget(n))
        n_tab += 1
        chk.decide(w.last is not None and unparse(w.last) == "return self.zero", "C07.dispatch", W("Poly.__call__"),
                   "empty polynomial -> %s" % (unparse(w.last) if w.last is not None else w.end), why="empty sum", node=call)
    for sec in (_sec0, _sec1, _sec2, _sec3, _sec4, _sec5, _sec6):
        try:
            sec()
        except AnalysisError as ex:
            chk.defer(str(ex))
    chk.floor("C07.dispatch", n_tab, 50, "scenarios walked")


class _RenameKV(ast.NodeTransformer):
    def __init__(self, m):
        self.m = m

    def visit_Name(self, n):
        if n.id in self.m:
            return ast.Name(id=self.m[n.id], ctx=n.ctx)
        return n


def run(chk, repo):
    mod = repo.mod(LP)
    W = lambda q: "%s:%s" % (mod.relpath, q)
    poly = repo.find(LP, "Poly")

    # --------------------------------------------------------------- funnel
    # a Poly stays mutable (item assignment, the zero setter) until it has been hashed: anything computed from its
    # terms and kept on the object has to be dropped - or the mutation refused - by every method that writes the terms
    chk.rule("C07.memo", "a value kept on a Poly (``if not hasattr(self, '_x'): self._x = <computed from self>``) is "
                         "guarded in every mutator (__setitem__, the zero setter): the mutator refuses to run once the value "
                         "exists (the _hash freeze) or deletes it")
    pcls = [n for n in ast.walk(mod.tree) if isinstance(n, ast.ClassDef) and n.name == "Poly"]
    nmemo = 0
    for cdef in pcls:
        mutators = [m_ for m_ in cdef.body if isinstance(m_, FuncTypes) and m_.name != "__init__" and any(
            (isinstance(x, (ast.Subscript,)) and isinstance(x.ctx, (ast.Store, ast.Del)) and unparse(x.value) == "self._data")
            for x in ast.walk(m_))]
        for meth in [m_ for m_ in cdef.body if isinstance(m_, FuncTypes)]:
            for ifn in [n for n in ast.walk(meth) if isinstance(n, ast.If)]:
                t_ = unparse(ifn.test)
                for st_ in ifn.body:
                    if isinstance(st_, ast.Assign) and len(st_.targets) == 1 and isinstance(st_.targets[0], ast.Attribute) \
                            and unparse(st_.targets[0].value) == "self" and any(
                                isinstance(x, ast.Name) and x.id == "self" for x in ast.walk(st_.value)):
                        a_ = st_.targets[0].attr
                        if t_ not in ("not hasattr(self, %r)" % a_, "self.%s is None" % a_, "getattr(self, %r, None) is None" % a_,
                                      "%r not in self.__dict__" % a_):
                            continue
                        nmemo += 1
                        unguarded = [m2.name for m2 in mutators if not any(
                            (isinstance(x, ast.If) and a_ in unparse(x.test) and any(isinstance(y, ast.Raise) for y in ast.walk(x)))
                            or (isinstance(x, ast.Delete) and ("self.%s" % a_) in unparse(x)) for x in ast.walk(m2))]
                        chk.decide(not unguarded, "C07.memo", W("Poly.%s" % meth.name), "kept on the object: %s" % short(st_),
                                   why="%s change(s) the terms without refusing or dropping self.%s: a later evaluation, "
                                       "comparison or product reads the value computed for the old terms"
                                       % (", ".join(unguarded), a_), node=st_)
    chk.floor("C07.memo", nmemo, 1, "values kept on a Poly (the hash)")
    chk.rule("C07.funnel", "_data of any object is written (assigned, item-assigned, item-deleted, mutated by "
                           "pop/update/clear/setdefault) only inside Poly.__init__, Poly.__setitem__ and the zero "
                           "setter, and each of them removes coefficients equal to the zero value unless they are Streams")
    allowed = {"__init__", "__setitem__", "zero"}
    writers = {}
    for m in repo.modules.values():
        for fn in ast.walk(m.tree):
            if not isinstance(fn, FuncTypes):
                continue
            for n in own_nodes(fn):
                hit = None
                if isinstance(n, (ast.Assign, ast.AugAssign, ast.Delete)):
                    tgts = n.targets if isinstance(n, (ast.Assign, ast.Delete)) else [n.target]
                    for t in tgts:
                        for x in ast.walk(t):
                            if isinstance(x, ast.Attribute) and x.attr == "_data" and isinstance(x.ctx, (ast.Store, ast.Del)):
                                hit = n
                            if isinstance(x, ast.Subscript) and isinstance(x.value, ast.Attribute) \
                                    and x.value.attr == "_data" and isinstance(x.ctx, (ast.Store, ast.Del)):
                                hit = n
                elif isinstance(n, ast.Call) and isinstance(n.func, ast.Attribute) \
                        and n.func.attr in ("pop", "update", "clear", "setdefault", "popitem", "move_to_end") \
                        and isinstance(n.func.value, ast.Attribute) and n.func.value.attr == "_data":
                    hit = n
                if hit is not None:
                    writers.setdefault((m.name, fn.name, id(fn)), (m, fn, []))[2].append(hit)
    nw = 0
    for (mname, fname, _), (m, fn, hits) in sorted(writers.items(), key=lambda kv: (kv[0][0], kv[0][1])):
        owner = getattr(fn, "_parent", None)
        in_poly = mname == LP and isinstance(owner, ast.ClassDef) and owner.name == "Poly"
        is_stream = mname == "lazy_stream"      # Stream._data is a different store (an iterator)
        if is_stream or mname in ("lazy_core",):
            continue
        nw += 1
        chk.decide(in_poly and fname in allowed, "C07.funnel", "%s:%s" % (m.relpath, fname),
                   "%d write(s) to _data, e.g. %s" % (len(hits), short(hits[0])),
                   why="coefficients stored behind the constructor's back are not compacted: zero coefficients can "
                       "appear (p - p != empty, len/==/hash disagree)", node=hits[0])
    chk.floor("C07.funnel", nw, 3, "functions writing a _data store")
    # guards
    init = repo.find(LP, "Poly.__init__")
    comp = [n for n in ast.walk(init) if isinstance(n, ast.If) and "== self.zero" in unparse(n.test)]
    ok = len(comp) == 1 and unparse(comp[0].test) == "not isinstance(value, Stream) and value == self.zero" \
        and unparse(comp[0].body[0]) == "del self._data[key]"
    loop = comp[0]._parent if comp else None
    ok = ok and isinstance(loop, ast.For) and unparse(loop.iter) == "list(iteritems(self._data))"
    chk.decide(ok, "C07.funnel", W("Poly.__init__"), "compaction: " + (short(comp[0]) if comp else "missing"),
               why="the constructor must drop every non-Stream coefficient equal to the zero value, over all items", node=init)
    zs = repo.find(LP, "Poly._zero", required=False)
    si = repo.find(LP, "Poly.__setitem__")
    ifs = [n for n in docstring_free(si.body) if isinstance(n, ast.If) and "self.zero" in unparse(n.test)]
    ok = len(ifs) == 1 and unparse(ifs[0].test) == "isinstance(coeff, Stream) or coeff != self.zero" \
        and unparse(ifs[0].body[0]) == "self._data[power] = coeff" and len(ifs[0].orelse) == 1 \
        and unparse(ifs[0].orelse[0]) == "if power in self._data:\n    del self._data[power]"
    chk.decide(ok, "C07.funnel", W("Poly.__setitem__"), short(ifs[0]) if ifs else "guard missing",
               why="item assignment must store only non-zero (or Stream) coefficients and delete the key otherwise", node=si)
    setters = [f for f in poly.body if isinstance(f, FuncTypes) and f.name == "zero"
               and any(unparse(d) == "zero.setter" for d in f.decorator_list)]
    chk.require(len(setters) == 1, "Poly.zero setter not found")
    zt = unparse(setters[0])
    ok = "if not isinstance(coeff, Stream) and coeff == value:" in zt and "del self._data[power]" in zt \
        and "list(iteritems(self._data))" in zt
    chk.decide(ok, "C07.funnel", W("Poly.zero.setter"), "re-compacts the store for the new zero value",
               why="changing the zero value must drop coefficients equal to it", node=setters[0])
    # every constructor path of the operators
    for name in ("__add__", "__mul__", "__truediv__", "diff", "integrate", "copy"):
        fn = repo.find(LP, "Poly." + name)
        rets = [n for n in own_nodes(fn) if isinstance(n, ast.Return) and n.value is not None]
        for r in rets:
            ok = isinstance(r.value, ast.Call) and unparse(r.value.func) in ("Poly", "cls", "type(self)")
            zero_kw = any(k.arg == "zero" for k in r.value.keywords) or len(r.value.args) == 2 if ok else False
            chk.decide(ok and zero_kw, "C07.funnel", W("Poly." + name), short(r),
                       why="results must be built by the compacting constructor, with the zero value passed on", node=r)

    _dispatch(chk, repo, mod, W)

    # ------------------------------------------------------------------- eq
    chk.rule("C07.eq", "__eq__ = zeros equal and stores equal (same length, every key of one in the other with an equal "
                       "value, Streams by identity); __ne__ its complement; __hash__ over (frozenset of items, zero)")
    eq = repo.find(LP, "Poly.__eq__")
    de = [f for f in eq.body if isinstance(f, FuncTypes) and f.name == "dicts_equal"]
    ok = len(de) == 1 and unparse(docstring_free(de[0].body)[-1]) == \
        "return len(a) == len(b) and all((k in b and is_pair_equal(v, b[k]) for k, v in iteritems(a)))"
    chk.decide(ok, "C07.eq", W("Poly.__eq__"), short(docstring_free(de[0].body)[-1]) if de else "dicts_equal missing",
               why="stores are equal iff same size and every key maps to an equal coefficient", node=eq)
    pe = [f for f in eq.body if isinstance(f, FuncTypes) and f.name == "is_pair_equal"]
    ok = len(pe) == 1 and [unparse(s) for s in docstring_free(pe[0].body)] == \
        ["if isinstance(a, Stream) or isinstance(b, Stream):\n    return a is b", "return a == b"]
    chk.decide(ok, "C07.eq", W("Poly.__eq__"), "coefficients: Streams by identity, numbers by ==",
               why="comparing Streams with == would build a Stream (truthy) instead of a verdict", node=eq)
    r = docstring_free(eq.body)[-1]
    ok = isinstance(r, ast.Return) and unparse(r.value) == "is_pair_equal(self._zero, other._zero) and dicts_equal(self._data, other._data)"
    chk.decide(ok, "C07.eq", W("Poly.__eq__"), short(r), why="equality must cover the zero value and the whole store", node=r)
    ne = repo.find(LP, "Poly.__ne__")
    b = docstring_free(ne.body)
    chk.decide(len(b) == 1 and isinstance(b[0], ast.Return) and boolskel.is_not_eq_call(b[0].value), "C07.eq",
               W("Poly.__ne__"), short(b[0]), why="__ne__ must be the complement of __eq__", node=ne)
    h = repo.find(LP, "Poly.__hash__")
    ht = unparse(h)
    chk.decide("hash((frozenset(iteritems(self._data)), self.zero))" in ht, "C07.eq", W("Poly.__hash__"),
               "hash of (frozenset(items), zero)", why="hash must be a function of exactly what __eq__ compares "
               "(order-independent)", node=h)

    # ------------------------------------------------------------- product/sum
    chk.rule("C07.product", "term-wise identities in normal form: product key k1+k2 / value v1*v2 with accumulation; sum "
                            "of common keys last in the chain; unary map; power arms; division arms")
    mul = repo.find(LP, "Poly.__mul__")
    from ..core import accumulate_guards
    for ifn_, tested_, stores_ in accumulate_guards(mul):
        try:
            same_ = all(Evaluator().ev(k_) == Evaluator().ev(tested_) for _, k_ in stores_)
        except Inconclusive:
            same_ = all(unparse(k_) == unparse(tested_) for _, k_ in stores_)
        chk.decide(same_, "C07.product", W("Poly.__mul__"), "terms accumulated under '%s'" % unparse(ifn_.test),
                   why="the power that is looked up is not the power that is written: like terms overwrite each other "
                       "instead of adding up", node=ifn_)
    inner = [n for n in ast.walk(mul) if isinstance(n, ast.If) and " in new_data" in unparse(n.test)]
    chk.require(len(inner) == 1, "Poly.__mul__: accumulate/insert branch not found")
    br = inner[0]
    loops = []
    p = br._parent
    while p is not None and p is not mul:
        if isinstance(p, ast.For):
            loops.append(p)
        p = getattr(p, "_parent", None)
    chk.require(len(loops) == 2, "Poly.__mul__: double loop not found")
    (k2, v2), (k1, v1) = [[unparse(e) for e in l.target.elts] for l in loops]
    try:
        envm = {}
        blk_ = getattr(br._parent, "body", [])
        for st_ in blk_:
            if st_ is br:
                break
            if isinstance(st_, ast.Assign) and len(st_.targets) == 1 and isinstance(st_.targets[0], ast.Name):
                envm[st_.targets[0].id] = Evaluator(envm).ev(st_.value)
        ev = Evaluator(envm)
        keyt = ev.ev(br.test.left)
        acc, ins = br.body[0], br.orelse[0]
        if isinstance(br.test.ops[0], ast.NotIn):
            acc, ins = ins, acc
        ok = keyt == RF.sym(k1) + RF.sym(k2) \
            and isinstance(acc, ast.AugAssign) and isinstance(acc.op, ast.Add) and ev.ev(acc.target.slice) == keyt \
            and ev.ev(acc.value) == RF.sym(v1) * RF.sym(v2) \
            and isinstance(ins, ast.Assign) and ev.ev(ins.targets[0].slice) == keyt and ev.ev(ins.value) == RF.sym(v1) * RF.sym(v2) \
            and unparse(acc.target.value) == "new_data" and unparse(ins.targets[0].value) == "new_data"
    except (Inconclusive, AttributeError):
        ok = False
    chk.decide(ok, "C07.product", W("Poly.__mul__"), "%s ; else %s" % (short(br.body[0]), short(br.orelse[0])),
               why="x^k1 * x^k2 must land on key k1 + k2 with coefficient v1 * v2, added to what is already there", node=br)
    srcs = sorted(unparse(l.iter) for l in loops)
    chk.decide(len(set(srcs)) == 2, "C07.product", W("Poly.__mul__"),
               "every term of self meets every term of other: loops over %s" % srcs,
               why="product must range over all pairs of terms", node=mul)
    # what the two loops range over: every (power, coefficient) of each operand, the coefficient behind a hub
    seen_src = []
    for l in loops:
        nm = unparse(l.iter)
        defs_ = [n for n in ast.walk(mul) if isinstance(n, ast.Assign) and unparse(n.targets[0]) == nm]
        okd = len(defs_) == 1 and isinstance(defs_[0].value, (ast.ListComp, ast.GeneratorExp)) \
            and len(defs_[0].value.generators) == 1 and not defs_[0].value.generators[0].ifs
        if okd:
            lc = defs_[0].value
            g_ = lc.generators[0]
            okd = isinstance(g_.target, ast.Tuple) and len(g_.target.elts) == 2 and isinstance(lc.elt, ast.Tuple) \
                and len(lc.elt.elts) == 2 and unparse(g_.iter) in ("iteritems(self._data)", "iteritems(other._data)",
                                                                      "self.terms()", "other.terms()", "self._data.items()",
                                                                      "other._data.items()")
            if okd:
                kt, vt = [unparse(e) for e in g_.target.elts]
                ke, ve = lc.elt.elts
                okd = unparse(ke) == kt and (unparse(ve) == vt or (
                    isinstance(ve, ast.Call) and canon_call(mod, ve) in ("lazy_stream:thub", "thub") and len(ve.args) == 2
                    and unparse(ve.args[0]) == vt))
                seen_src.append(unparse(g_.iter).split("(")[-1].split(".")[0].rstrip(")") if okd else "?")
        chk.decide(okd, "C07.product", W("Poly.__mul__"), short(defs_[0]) if defs_ else nm + " undefined",
                   why="the factors must be the (power, coefficient) pairs of the operand itself (coefficient possibly "
                       "behind thub(coefficient, uses))", node=defs_[0] if defs_ else mul)
    chk.decide(sorted(seen_src) == ["other", "self"], "C07.product", W("Poly.__mul__"),
               "one loop over self's terms, one over other's: %s" % sorted(seen_src),
               why="product must range over all pairs of terms", node=mul)
    add = repo.find(LP, "Poly.__add__")
    ia = [n for n in ast.walk(add) if isinstance(n, ast.Assign) and unparse(n.targets[0]) == "intersect"]
    r = [n for n in own_nodes(add) if isinstance(n, ast.Return)][0]
    ch = [n for n in ast.walk(r) if isinstance(n, ast.Call) and canon_call(mod, n) == "itertools.chain"]
    if not ia and not ch:
        # the same sum built in place: D = OrderedDict(self._data) ; D.update(other._data) ; for k in <common keys>:
        # D[k] = self._data[k] + other._data[k] ; return Poly(D, zero=self.zero)
        ab_ = [s_ for s_ in docstring_free(add.body) if not (isinstance(s_, ast.If) and "isinstance(other, Poly)" in unparse(s_.test))]
        form = None
        if len(ab_) == 4 and isinstance(ab_[0], ast.Assign) and isinstance(ab_[0].targets[0], ast.Name):
            d_ = ab_[0].targets[0].id
            form = unparse(ab_[0].value) in ("OrderedDict(self._data)", "OrderedDict(iteritems(self._data))") \
                and unparse(ab_[1]) == "%s.update(other._data)" % d_ \
                and isinstance(ab_[2], ast.For) and isinstance(ab_[2].target, ast.Name) and len(ab_[2].body) == 1 \
                and unparse(ab_[2].iter) in ("set(self._data).intersection(other._data)", "set(other._data).intersection(self._data)") \
                and unparse(ab_[2].body[0]) == "{d}[{k}] = self._data[{k}] + other._data[{k}]".format(d=d_, k=ab_[2].target.id) \
                and unparse(ab_[3]) == "return Poly(%s, zero=self.zero)" % d_
        if form:
            chk.decide(True, "C07.product", W("Poly.__add__"), "own terms, then the other's, then the sums of the common powers "
                       "(in place)", why="coefficients of common powers must be added", node=add)
        else:
            chk.defer("%s: the sum is neither the chain of (own items, other's items, sums of common powers) nor its "
                      "in-place form" % W("Poly.__add__"))
    else:
        ok = len(ia) == 1 and unparse(ia[0].value) == \
            "[(key, self._data[key] + other._data[key]) for key in set(self._data).intersection(other._data)]"
        chk.decide(ok, "C07.product", W("Poly.__add__"), short(ia[0]) if ia else "intersect missing",
                   why="coefficients of common powers must be added", node=add)
        ok = len(ch) == 1 and [unparse(a) for a in ch[0].args] == ["iteritems(self._data)", "iteritems(other._data)", "intersect"]
        chk.decide(ok, "C07.product", W("Poly.__add__"), "chain order: " + (", ".join(unparse(a) for a in ch[0].args) if ch else "?"),
                   why="the summed coefficients must come last so that they overwrite the operands' own entries", node=r)
    sub = repo.find(LP, "Poly.__sub__")
    try:
        v = Evaluator().ev(docstring_free(sub.body)[-1].value)
        ok = v == RF.sym("self") - RF.sym("other")
    except Inconclusive:
        ok = False
    chk.decide(ok, "C07.product", W("Poly.__sub__"), short(docstring_free(sub.body)[-1]), why="p - q must be p + (-q)", node=sub)
    un = repo.find(LP, "PolyMeta.__unary__")
    du = [f for f in un.body if isinstance(f, FuncTypes)][0]
    r = docstring_free(du.body)[-1]
    ok = unparse(r) == "return cls(OrderedDict(((k, op_func(v)) for k, v in iteritems(self._data))), zero=self.zero)"
    chk.decide(ok, "C07.product", W("PolyMeta.__unary__"), short(r), why="unary operators act coefficient-wise, keeping "
               "powers and the zero value", node=r)
    rb = repo.find(LP, "PolyMeta.__rbinary__")
    du = [f for f in rb.body if isinstance(f, FuncTypes)][0]
    r = docstring_free(du.body)[-1]
    chk.decide(unparse(r) == "return op_func(cls(other, zero=self.zero), self)", "C07.product", W("PolyMeta.__rbinary__"),
               short(r), why="c op p must be Poly(c) op p", node=r)
    ops_decl = repo.find_assign(LP, "__operators__", scope="PolyMeta")
    try:
        opsv = ast.literal_eval(ops_decl)
    except Exception:
        opsv = ""
    chk.decide(set(["+", "-", "*", "pow", "truediv", "eq", "ne"]) <= set(str(opsv).split()), "C07.product", W("PolyMeta"),
               "__operators__ = %r" % (opsv,), why="a ring operator of the property is not generated", node=ops_decl)
    # pow
    pw = repo.find(LP, "Poly.__pow__")
    from .c08 import leaves as _leaves
    pbody = docstring_free(pw.body)
    # statements after the normalisation of a Poly exponent
    pstart = 0
    for i_, st_ in enumerate(pbody):
        if isinstance(st_, ast.If) and "isinstance(other, Poly)" in unparse(st_.test):
            pstart = i_ + 1
    alias = {}
    for st_ in pbody[pstart:]:
        if isinstance(st_, ast.Assign) and len(st_.targets) == 1 and isinstance(st_.targets[0], ast.Name) \
                and unparse(st_.value) in ("len(self._data)", "len(self)"):
            alias[st_.targets[0].id] = True

    def holds(test, n, zero_exp):
        """truth of a guard for a polynomial of n terms and exponent == 0 or not; None when not interpretable"""
        if isinstance(test, ast.UnaryOp) and isinstance(test.op, ast.Not):
            r_ = holds(test.operand, n, zero_exp)
            return None if r_ is None else not r_
        if isinstance(test, ast.BoolOp):
            vals = [holds(v_, n, zero_exp) for v_ in test.values]
            if any(v_ is None for v_ in vals):
                return None
            return all(vals) if isinstance(test.op, ast.And) else any(vals)
        t_ = unparse(test)
        if t_ in ("other == 0", "0 == other"):
            return zero_exp
        if t_ in ("other != 0", "0 != other"):
            return not zero_exp
        if t_ in alias or t_ in ("self._data", "len(self._data)", "len(self)"):
            return n != 0
        if isinstance(test, ast.Compare) and len(test.ops) == 1:
            l_, r_ = unparse(test.left), unparse(test.comparators[0])
            isn = lambda x: x in alias or x in ("len(self._data)", "len(self)")
            try:
                if isn(l_) and isinstance(test.comparators[0], ast.Constant):
                    a_, b_ = n, test.comparators[0].value
                elif isn(r_) and isinstance(test.left, ast.Constant):
                    a_, b_ = test.left.value, n
                else:
                    return None
            except Exception:
                return None
            op_ = type(test.ops[0])
            return {ast.Eq: a_ == b_, ast.NotEq: a_ != b_, ast.Lt: a_ < b_, ast.LtE: a_ <= b_, ast.Gt: a_ > b_,
                    ast.GtE: a_ >= b_}.get(op_)
        return None
    plv = [l_ for l_ in _leaves([s_ for s_ in pbody[pstart:] if not isinstance(s_, ast.Assign) or True])]

    def selected(n, zero_exp):
        out_ = []
        for l_ in plv:
            taken = True
            for c_, pol_ in l_.conds:
                v_ = holds(c_, n, zero_exp)
                if v_ is None:
                    raise AnalysisError("Poly.__pow__: guard not interpretable: %s" % unparse(c_))
                if v_ != pol_:
                    taken = False
                    break
            if taken:
                out_.append(l_)
        return out_
    def ret_of(l_):
        rs = [s_ for s_ in l_.stmts if isinstance(s_, ast.Return)]
        return rs[-1] if rs else None
    for n_ in (0, 1, 2, 5):
        sel = selected(n_, True)
        r_ = ret_of(sel[0]) if len(sel) == 1 else None
        chk.decide(r_ is not None and unparse(r_.value) == "Poly(1, zero=self.zero)", "C07.product", W("Poly.__pow__"),
                   "p ** 0 = 1 for a polynomial of %s term(s)" % ("%d" % n_ if n_ < 5 else "several"),
                   why="the zeroth power is the constant one whatever p is - also for the empty polynomial ((p - p) ** 0 is "
                       "the empty product, and p(q) with an empty q keeps p's constant term): the exponent must be "
                       "tested before the emptiness", node=r_ or pw)
    sel = selected(0, False)
    r_ = ret_of(sel[0]) if len(sel) == 1 else None
    chk.decide(r_ is not None and unparse(r_.value) == "Poly(zero=self.zero)", "C07.product", W("Poly.__pow__"),
               "empty ** n = empty", why="power of the zero polynomial", node=r_ or pw)
    sel = selected(1, False)
    r_ = ret_of(sel[0]) if len(sel) == 1 else None
    ok = r_ is not None
    if ok:
        ge = [n for n in ast.walk(r_) if isinstance(n, ast.GeneratorExp)]
        ok = len(ge) == 1 and isinstance(ge[0].elt, ast.Tuple)
        if ok:
            kx, vx = ge[0].elt.elts
            try:
                ok = Evaluator().ev(kx) == RF.sym("k") * RF.sym("other")
                iv = vx
                ok = ok and isinstance(iv, ast.IfExp) and unparse(iv.test) == "v == 1" and unparse(iv.body) == "1" \
                    and Evaluator().ev(iv.orelse) == sym_pow(RF.sym("v"), RF.sym("other"))
            except Inconclusive:
                ok = False
    chk.decide(ok, "C07.product", W("Poly.__pow__"), "single term: (v x^k) ** n = v**n x^(k*n)",
               why="monomial power must multiply the exponent and raise the coefficient", node=r_ or pw)
    for n_ in (2, 5):
        sel = selected(n_, False)
        last = ret_of(sel[0]) if len(sel) == 1 else None
        ok = False
        if last is not None:
            v = last.value
            if isinstance(v, ast.Name):
                from .c05 import _fold_value
                v = _fold_value(pw, v.id) or v
            if isinstance(v, ast.Call) and canon_call(mod, v) == "functools.reduce" and canon(mod, v.args[0]) == "operator.mul":
                seq = v.args[1]
                if isinstance(seq, ast.BinOp) and isinstance(seq.op, ast.Add) and isinstance(seq.left, ast.ListComp) \
                        and unparse(seq.right) == "[self]" and unparse(seq.left.elt) == "self.copy()":
                    cnt = e4.size_of(seq.left.generators[0].iter)
                    ok = cnt is not None and cnt + 1 == RF.sym("other")
        chk.decide(ok, "C07.product", W("Poly.__pow__"), "general (%s terms): %s" % (n_ if n_ < 5 else "several",
                                                                                      short(last) if last is not None else "?"),
                   why="p ** n must be the product of exactly n factors p", node=last or pw)
    td = repo.find(LP, "Poly.__truediv__")
    gens = [n for n in ast.walk(td) if isinstance(n, ast.GeneratorExp)]
    # roles, whatever the locals are called: (delta, value) is the single term of the divisor, the scalar divisor is
    # the hub over the argument
    single = [a_ for a_ in ast.walk(td) if isinstance(a_, ast.Assign) and len(a_.targets) == 1 and isinstance(a_.targets[0], ast.Tuple)
              and len(a_.targets[0].elts) == 2 and unparse(a_.value) in ("next(iteritems(other._data))", "next(iter(other._data.items()))")]
    dname, vname_ = ([unparse(e_) for e_ in single[0].targets[0].elts] if len(single) == 1 else ("delta", "value"))
    hubs = [a_ for a_ in ast.walk(td) if isinstance(a_, ast.Assign) and len(a_.targets) == 1 and isinstance(a_.targets[0], ast.Name)
            and isinstance(a_.value, ast.Call) and unparse(a_.value.func) == "thub" and a_.value.args
            and unparse(a_.value.args[0]) == "other"]
    sname_ = hubs[0].targets[0].id if len(hubs) == 1 else "other"
    okc = 0
    for g in gens:
        if isinstance(g.elt, ast.Tuple) and len(g.elt.elts) == 2 and isinstance(g.generators[0].target, ast.Tuple) \
                and len(g.generators[0].target.elts) == 2:
            kn_, vn_ = [unparse(e_) for e_ in g.generators[0].target.elts]

            def hk(ev, name, node):
                if canon(mod, node.func) == "operator.truediv":
                    return ev.ev(node.args[0]) / ev.ev(node.args[1])
                return None
            try:
                kx, vx = Evaluator(call_hook=hk).ev(g.elt.elts[0]), Evaluator(call_hook=hk).ev(g.elt.elts[1])
            except Inconclusive:
                continue
            if kx == RF.sym(kn_) - RF.sym(dname) and vx == RF.sym(vn_) / RF.sym(vname_):
                okc += 1
            elif kx == RF.sym(kn_) and vx == RF.sym(vn_) / RF.sym(sname_):
                okc += 1
            else:
                chk.bad("C07.product", W("Poly.__truediv__"), short(g), "division arm must map (k, v) to (k - delta, "
                        "v / value) for a single-term divisor or (k, v / c) for a scalar", node=g)
    chk.decide(okc == 2, "C07.product", W("Poly.__truediv__"), "%d division arm(s) verified" % okc,
               why="expected the single-term and the scalar arm", node=td)

    # ---------------------------------------------------------------- calculus
    chk.rule("C07.calculus", "diff: (k, v) -> (k-1, k*v) for k != 0; integrate: (k, v) -> (k+1, v/(k+1)), ValueError on "
                             "k = -1; diff after integrate is the identity on (k, v); diff is linear in v")
    df = repo.find(LP, "Poly.diff")
    it = repo.find(LP, "Poly.integrate")
    def term_map(fn_):
        """(new power, new coefficient, [filter texts in terms of k]) of the one term-by-term map of the function: a
        generator expression of pairs over the items of a term store, or a loop that stores D[K] = V item by item
        (temporaries of the loop body resolved); powers and coefficients are called k and v"""
        gens = [n for n in ast.walk(fn_) if isinstance(n, ast.GeneratorExp) and isinstance(n.elt, ast.Tuple) and len(n.elt.elts) == 2]
        dcs = [n for n in ast.walk(fn_) if isinstance(n, ast.DictComp)]
        if not gens and len(dcs) == 1:
            # {K: V for k, v in ..}: the same pairs, as a mapping display
            gens = [ast.GeneratorExp(elt=ast.Tuple(elts=[dcs[0].key, dcs[0].value], ctx=ast.Load()), generators=dcs[0].generators)]
        if len(gens) == 1 and len(gens[0].generators) == 1 and isinstance(gens[0].generators[0].target, ast.Tuple) \
                and len(gens[0].generators[0].target.elts) == 2:
            g_ = gens[0].generators[0]
            kn, vn = [unparse(t_) for t_ in g_.target.elts]
            env_ = {kn: RF.sym("k"), vn: RF.sym("v")}
            ren = lambda t_: unparse(_RenameKV({kn: "k", vn: "v"}).visit(ast.parse(unparse(t_), mode="eval").body))
            return Evaluator(env_).ev(gens[0].elt.elts[0]), Evaluator(env_).ev(gens[0].elt.elts[1]), [ren(f_) for f_ in g_.ifs]
        loops = [n for n in ast.walk(fn_) if isinstance(n, ast.For) and isinstance(n.target, ast.Tuple) and len(n.target.elts) == 2
                 and isinstance(n.iter, ast.Call) and unparse(n.iter.func) in ("iteritems",)]
        if len(loops) == 1 and not loops[0].orelse:
            lp_ = loops[0]
            kn, vn = [unparse(t_) for t_ in lp_.target.elts]
            env_ = {kn: RF.sym("k"), vn: RF.sym("v")}
            ren = lambda t_: unparse(_RenameKV({kn: "k", vn: "v"}).visit(ast.parse(unparse(t_), mode="eval").body))
            filt = []
            blk_ = list(lp_.body)
            while len(blk_) == 1 and isinstance(blk_[0], ast.If) and not blk_[0].orelse:
                filt.append(ren(blk_[0].test))
                blk_ = list(blk_[0].body)
            stores_ = []
            for st_ in blk_:
                if isinstance(st_, ast.Assign) and len(st_.targets) == 1 and isinstance(st_.targets[0], ast.Name):
                    env_[st_.targets[0].id] = Evaluator(env_).ev(st_.value)
                elif isinstance(st_, ast.Assign) and len(st_.targets) == 1 and isinstance(st_.targets[0], ast.Subscript) \
                        and isinstance(st_.targets[0].value, ast.Name):
                    stores_.append(st_)
                else:
                    raise Inconclusive("statement %s in the term loop" % short(st_))
            if len(stores_) == 1:
                return Evaluator(env_).ev(stores_[0].targets[0].slice), Evaluator(env_).ev(stores_[0].value), filt
        raise Inconclusive("no term-by-term map found")
    try:
        dk, dv, dfilt = term_map(df)
        ik, iv, ifilt = term_map(it)
    except (Inconclusive, AttributeError) as ex:
        raise AnalysisError("diff/integrate maps not interpretable: %s" % ex)
    k, v = RF.sym("k"), RF.sym("v")
    chk.decide(dk == k - 1 and dv == k * v, "C07.calculus", W("Poly.diff"), "(k, v) -> (%s, %s)" % (dk.key(), dv.key()),
               why="power rule: d/dx v x^k = k v x^(k-1)", node=df)
    chk.decide(dfilt in (["k != 0"], ["0 != k"]), "C07.calculus", W("Poly.diff"), "constant term dropped (k != 0)",
               why="the derivative of the constant term must vanish, not be stored at k = -1", node=df)
    chk.decide(ik == k + 1 and iv == v / (k + 1), "C07.calculus", W("Poly.integrate"), "(k, v) -> (%s, %s)" % (ik.key(), iv.key()),
               why="anti-derivative: v x^k -> v/(k+1) x^(k+1)", node=it)
    comp_k = dk.subst({"k": ik})
    comp_v = dv.subst({"k": ik, "v": iv})
    chk.decide(comp_k == k and comp_v == v, "C07.calculus", W("Poly.diff/integrate"),
               "diff(integrate): (k, v) -> (%s, %s)" % (comp_k.key(), comp_v.key()), why="diff must undo integrate", node=df)
    lin = dv.subst({"v": RF.sym("a") + RF.sym("b")}) == dv.subst({"v": RF.sym("a")}) + dv.subst({"v": RF.sym("b")})
    chk.decide(lin, "C07.calculus", W("Poly.diff"), "value map is linear in the coefficient", why="diff must be linear", node=df)
    g = [s for s in docstring_free(it.body) if isinstance(s, ast.If)]
    ib_ = docstring_free(it.body)

    def _tests_own_terms(t_, at_):
        """-1 in self._data, or in a local that holds self._data when the test runs"""
        if unparse(t_) == "-1 in self._data":
            return True
        if isinstance(t_, ast.Compare) and len(t_.ops) == 1 and isinstance(t_.ops[0], ast.In) and unparse(t_.left) == "-1" \
                and isinstance(t_.comparators[0], ast.Name):
            nm_ = t_.comparators[0].id
            prev = [s_ for s_ in ib_[:ib_.index(at_)] if isinstance(s_, ast.Assign) and any(
                isinstance(x_, ast.Name) and x_.id == nm_ for x_ in s_.targets)]
            return bool(prev) and unparse(prev[-1].value) == "self._data"
        return False
    chk.decide(len(g) == 1 and _tests_own_terms(g[0].test, g[0]) and "ValueError" in unparse(g[0].body[0]),
               "C07.calculus", W("Poly.integrate"), "x^-1 term refused", why="1/x has no polynomial anti-derivative", node=it)
    lp = [n for n in ast.walk(df) if isinstance(n, ast.For) and not (isinstance(n.iter, ast.Call) and unparse(n.iter.func) == "iteritems")]
    chk.decide(len(lp) == 1 and unparse(lp[0].iter) in ("xrange(n)", "range(n)"), "C07.calculus", W("Poly.diff"),
               "n-th derivative applies the map n times", why="diff(n) must iterate n times", node=df)

    # -------------------------------------------------------------------- eval
    chk.rule("C07.eval", "Poly.__call__: composition sum(c * q**p); empty -> zero; x == 0 -> constant term; Horner step "
                         "(p', c + R * x**(p - p')) on both branches with descending powers and final R * x**last; "
                         "direct sum(c * x**p) over all terms")
    call = repo.find(LP, "Poly.__call__")
    body = docstring_free(call.body)
    first = body[0]
    ok = isinstance(first, ast.If) and unparse(first.test) == "isinstance(value, Poly)"
    if ok:
        ge = [n for n in ast.walk(first) if isinstance(n, ast.GeneratorExp)]
        ok = len(ge) == 1 and unparse(ge[0].generators[0].iter) == "iteritems(self._data)"
        if ok:
            p_, c_ = [unparse(e) for e in ge[0].generators[0].target.elts]
            try:
                ok = Evaluator().ev(ge[0].elt) == RF.sym(c_) * sym_pow(RF.sym("value"), RF.sym(p_))
            except Inconclusive:
                ok = False
    chk.decide(ok, "C07.eval", W("Poly.__call__"), "composition: " + short(first.body[0]) if isinstance(first, ast.If) else "?",
               why="p(q) must be sum(coeff * q ** power)", node=first)
    z0 = [s for s in body if isinstance(s, ast.If) and unparse(s.test) == "not isinstance(value, Stream)"]
    ok = len(z0) == 1 and unparse(z0[0].body[0]) == "if value == 0:\n    return self[0]"
    chk.decide(ok, "C07.eval", W("Poly.__call__"), "x == 0 shortcut returns self[0]", why="p(0) is the constant term", node=call)
    em = [s for s in body if isinstance(s, ast.If) and unparse(s.test) == "not self._data"]
    chk.decide(len(em) == 1 and unparse(em[0].body[0]) == "return self.zero", "C07.eval", W("Poly.__call__"),
               "empty polynomial evaluates to the zero value", why="empty sum", node=call)
    hs = [f for f in ast.walk(call) if isinstance(f, FuncTypes) and f.name == "horner_step"]
    loop_horner = None
    if not hs:
        # the step written in line:  last_power, result = next(pairs) ; for power, coeff in pairs: <step>
        for lp_ in [n for n in ast.walk(call) if isinstance(n, ast.For) and isinstance(n.target, ast.Tuple) and len(n.target.elts) == 2]:
            stores_ = {unparse(t_) for s_ in ast.walk(lp_) if isinstance(s_, ast.Assign) for t_ in s_.targets}
            stores_ |= {unparse(s_.target) for s_ in ast.walk(lp_) if isinstance(s_, ast.AugAssign)}
            if {"result", "last_power"} <= stores_:
                loop_horner = lp_
        if loop_horner is not None:
            ren = {unparse(loop_horner.target.elts[0]): "npower", unparse(loop_horner.target.elts[1]): "ncoeff",
                   "last_power": "opower", "result": "oresult"}

            class _Ren(ast.NodeTransformer):
                def visit_Name(self, n):
                    if n.id in ren:
                        return ast.Name(id=ren[n.id], ctx=n.ctx)
                    return n
            src_ = "def horner_step(old, new):\n    opower, oresult = old\n    npower, ncoeff = new\n    pass\n    return (opower, oresult)\n"
            synth = ast.parse(src_).body[0]
            def _plain(s_):
                # x op= e  read as  x = x op e
                s_ = ast.parse(unparse(s_)).body[0]
                for blk_ in [getattr(n_, f_) for n_ in ast.walk(s_) for f_ in ("body", "orelse") if isinstance(getattr(n_, f_, None), list)]:
                    for k_, q_ in enumerate(blk_):
                        if isinstance(q_, ast.AugAssign) and isinstance(q_.target, ast.Name):
                            blk_[k_] = ast.Assign(targets=[ast.Name(id=q_.target.id, ctx=ast.Store())], value=ast.BinOp(
                                left=ast.Name(id=q_.target.id, ctx=ast.Load()), op=q_.op, right=q_.value), lineno=q_.lineno)
                if isinstance(s_, ast.AugAssign) and isinstance(s_.target, ast.Name):
                    s_ = ast.Assign(targets=[ast.Name(id=s_.target.id, ctx=ast.Store())], value=ast.BinOp(
                        left=ast.Name(id=s_.target.id, ctx=ast.Load()), op=s_.op, right=s_.value), lineno=s_.lineno)
                return ast.fix_missing_locations(s_)
            bodyc = [_Ren().visit(_plain(s_)) for s_ in loop_horner.body]
            synth.body = synth.body[:2] + bodyc + synth.body[-1:]
            ast.fix_missing_locations(synth)
            for n_ in ast.walk(synth):
                if hasattr(n_, "lineno"):
                    n_.lineno = loop_horner.lineno
            hs = [synth]
    chk.require(len(hs) == 1, "Poly.__call__: horner_step not found")
    hb = docstring_free(hs[0].body)
    try:
        from ..cond import norm_cmp
        unp = [unparse(s_) for s_ in hb[:2]]
        ok_unp = unp == ["opower, oresult = old", "npower, ncoeff = new"]
        x = RF.sym("value")
        n_leaves = 0
        all_ok = ok_unp
        detail = []
        # every return path: second component == ncoeff + oresult * value ** (opower - npower), read under the path's
        # own equalities on opower (a special-cased consecutive power is the same formula with the difference fixed)
        for lf in _leaves(hb[2:]):
            rets = [s_ for s_ in lf.stmts if isinstance(s_, ast.Return)]
            if not rets:
                continue
            n_leaves += 1
            subst = {}
            for c_, pol_ in lf.conds:
                cn = norm_cmp(c_)
                if cn is not None and cn[0] == "==" and pol_:
                    cp = cn[1].coeff_poly("opower")
                    if set(cp) <= {0, 1} and 1 in cp:
                        sol = -(cp.get(0, RF.const(0))) / cp[1]
                        subst["opower"] = sol

            class _S(ast.NodeTransformer):
                def visit_Name(self, n):
                    if n.id in subst_src and isinstance(n.ctx, ast.Load) and n.id not in lenv:
                        return ast.parse(subst_src[n.id], mode="eval").body
                    return n
            # locals of the leaf (scale = ...) resolved in order; IfExp on the same equality resolved by the path
            lenv = {}
            subst_src = {}
            if "opower" in subst:
                # write the solution back as source: only npower + const forms occur
                k_ = (subst["opower"] - RF.sym("npower"))
                subst_src["opower"] = "(npower + %d)" % k_.as_int()
            for s_ in lf.stmts:
                if isinstance(s_, ast.Assign) and len(s_.targets) == 1 and isinstance(s_.targets[0], ast.Name):
                    v_ = s_.value
                    if isinstance(v_, ast.IfExp):
                        cn = norm_cmp(v_.test)
                        if cn is not None and cn[0] == "==" and "opower" not in subst:
                            # both branches must satisfy the formula: check each under its own assumption
                            cp = cn[1].coeff_poly("opower")
                            sol = -(cp.get(0, RF.const(0))) / cp[1]
                            k_ = (sol - RF.sym("npower")).as_int()
                            sp_src = {"opower": "(npower + %d)" % k_}

                            class _S2(ast.NodeTransformer):
                                def visit_Name(self, n):
                                    if n.id in sp_src and isinstance(n.ctx, ast.Load):
                                        return ast.parse(sp_src[n.id], mode="eval").body
                                    return n
                            special = Evaluator().ev(_S2().visit(ast.parse(unparse(v_.body), mode="eval").body))
                            want_sp = x ** k_
                            if special != want_sp:
                                all_ok = False
                                detail.append("special branch %s" % unparse(v_.body))
                            v_ = v_.orelse
                    lenv[s_.targets[0].id] = Evaluator(lenv).ev(_S().visit(ast.parse(unparse(v_), mode="eval").body))
            rv = rets[-1].value
            ok_ret = isinstance(rv, ast.Tuple) and len(rv.elts) == 2 and (
                unparse(rv.elts[0]) == "npower" or (isinstance(rv.elts[0], ast.Name) and lenv.get(rv.elts[0].id) == RF.sym("npower")))
            if ok_ret:
                got = Evaluator(lenv).ev(_S().visit(ast.parse(unparse(rv.elts[1]), mode="eval").body))
                expo = (subst["opower"] if "opower" in subst else RF.sym("opower")) - RF.sym("npower")
                try:
                    want = RF.sym("ncoeff") + RF.sym("oresult") * (x ** expo.as_int())
                except Inconclusive:
                    want = RF.sym("ncoeff") + RF.sym("oresult") * sym_pow(x, RF.sym("opower") - RF.sym("npower"))
                ok_ret = got == want
            if not ok_ret:
                all_ok = False
                detail.append("path [%s] returns %s" % (" and ".join(unparse(c_) for c_, _ in lf.conds) or "always", unparse(rv)))
        chk.require(n_leaves >= 1, "horner_step shape")
        chk.decide(all_ok, "C07.eval", W("Poly.__call__.horner_step"),
                   "R' = ncoeff + R * value ** (opower - npower) on all %d return path(s)" % n_leaves,
                   why="Horner recurrence broken: %s" % ("; ".join(detail) or "operand unpacking changed"), node=hs[0])
    except Inconclusive as ex:
        raise AnalysisError("horner_step not interpretable: %s" % ex)
    pr = [n for n in ast.walk(call) if isinstance(n, ast.Assign) and unparse(n.targets[0]) == "pairs"
          and unparse(n.value) != "iter(pairs)"]
    chk.decide(len(pr) == 1 and unparse(pr[0].value) == "self.terms(sort=True, reverse=True)", "C07.eval",
               W("Poly.__call__"), short(pr[0]) if pr else "pairs missing", why="Horner needs descending powers", node=call)
    fin = [n for n in ast.walk(call) if isinstance(n, ast.Return) and "last_power" in unparse(n)]
    ok = len(fin) == 1
    if ok:
        try:
            ok = Evaluator().ev(fin[0].value) == RF.sym("result") * sym_pow(RF.sym("value"), RF.sym("last_power"))
        except Inconclusive:
            ok = False
    chk.decide(ok, "C07.eval", W("Poly.__call__"), short(fin[0]) if fin else "final return missing",
               why="remaining factor x ** last_power must be applied", node=call)
    red = [n for n in ast.walk(call) if isinstance(n, ast.Assign) and "reduce(horner_step, pairs)" in unparse(n.value)]
    if loop_horner is not None:
        first_ = [n for n in ast.walk(call) if isinstance(n, ast.Assign) and unparse(n.targets[0]) in ("(last_power, result)", "last_power, result")
                  and isinstance(n.value, ast.Call) and unparse(n.value.func) == "next"]
        itn_ = unparse(first_[0].value.args[0]) if len(first_) == 1 else None
        chk.decide(len(first_) == 1 and unparse(loop_horner.iter) == itn_, "C07.eval", W("Poly.__call__"),
                   "explicit fold: %s ; for %s in %s" % (short(first_[0]) if first_ else "?", unparse(loop_horner.target), unparse(loop_horner.iter)),
                   why="fold the step over all pairs, starting from the first one", node=call)
    else:
        chk.decide(len(red) == 1 and unparse(red[0].targets[0]) == "(last_power, result)" or
                   (len(red) == 1 and unparse(red[0].targets[0]) == "last_power, result"), "C07.eval", W("Poly.__call__"),
                   short(red[0]) if red else "reduce missing", why="fold the step over all pairs", node=call)
    sums = [n for n in own_nodes(call) if isinstance(n, ast.Return) and isinstance(n.value, ast.Call)
            and unparse(n.value.func) == "sum" and n.value.args and isinstance(n.value.args[0], ast.GeneratorExp)
            and "terms" in unparse(n.value.args[0].generators[0].iter)]
    last = sums[-1] if len(sums) == 1 else body[-1]
    ok = isinstance(last, ast.Return) and isinstance(last.value, ast.Call) and unparse(last.value.func) == "sum"
    if ok:
        ge = last.value.args[0]
        ok = isinstance(ge, ast.GeneratorExp) and unparse(ge.generators[0].iter) == "self.terms()" and not ge.generators[0].ifs
        if ok:
            p_, c_ = [unparse(e) for e in ge.generators[0].target.elts]
            try:
                ok = Evaluator().ev(ge.elt) == RF.sym(c_) * sym_pow(RF.sym("value"), RF.sym(p_))
            except Inconclusive:
                ok = False
    chk.decide(ok, "C07.eval", W("Poly.__call__"), "direct: " + short(last), why="p(x) = sum(coeff * x ** power)", node=last)
    gi = repo.find(LP, "Poly.__getitem__")
    chk.decide([unparse(s) for s in docstring_free(gi.body)] ==
               ["if item in self._data:\n    return self._data[item]\nelse:\n    return self.zero"], "C07.eval",
               W("Poly.__getitem__"), "missing powers read as the zero value", why="absent coefficient is zero", node=gi)

    # ---------------------------------------------------------------- lagrange
    chk.rule("C07.lagrange", "lagrange.func(pairs)(k) = sum_j y_j * prod_{r_k != r_j} (k - r_k)/(r_j - r_k); "
                             "lagrange.poly = lagrange.func(pairs)(x)")
    lf = repo.strategy(LP, "lagrange", "func").node
    lam = [n for n in ast.walk(lf) if isinstance(n, ast.Lambda) and isinstance(n.body, ast.Call) and unparse(n.body.func) == "sum"]
    chk.require(len(lam) == 1, "lagrange.func: result lambda not found")
    kv = lam[0].args.args[0].arg
    outer = lam[0].body.args[0]
    ok = isinstance(outer, ast.GeneratorExp) and unparse(outer.generators[0].iter) == "enumerate(xv)"
    prod_defs = [s_ for s_ in docstring_free(lf.body) if isinstance(s_, ast.Assign) and len(s_.targets) == 1
                 and isinstance(s_.targets[0], ast.Name) and isinstance(s_.value, ast.Lambda)]
    prod_ok = {s_.targets[0].id for s_ in prod_defs if len(s_.value.args.args) == 1 and unparse(s_.value.body) in (
        "reduce(operator.mul, %s)" % s_.value.args.args[0].arg, "reduce(lambda a, b: a * b, %s)" % s_.value.args.args[0].arg)}

    def _as_genexp(call_):
        """G of a call of a local generator function ``def g(a, b): for t in S: [if P:] yield E`` with the arguments bound"""
        gd = [f_ for f_ in lf.body if isinstance(f_, FuncTypes) and isinstance(call_.func, ast.Name) and f_.name == call_.func.id]
        if len(gd) != 1 or call_.keywords or len(call_.args) != len(gd[0].args.args):
            return None
        b_ = docstring_free(gd[0].body)
        if len(b_) != 1 or not isinstance(b_[0], ast.For) or b_[0].orelse or len(b_[0].body) != 1:
            return None
        inner, ifs = b_[0].body[0], []
        while isinstance(inner, ast.If) and not inner.orelse and len(inner.body) == 1:
            ifs.append(inner.test)
            inner = inner.body[0]
        if not (isinstance(inner, ast.Expr) and isinstance(inner.value, ast.Yield) and inner.value.value is not None):
            return None
        ren_ = dict((p_.arg, unparse(a_)) for p_, a_ in zip(gd[0].args.args, call_.args))
        if not all(isinstance(a_, ast.Name) for a_ in call_.args):
            return None

        class _R(ast.NodeTransformer):
            def visit_Name(self, n):
                return ast.Name(id=ren_.get(n.id, n.id), ctx=n.ctx)
        mk = lambda e_: _R().visit(ast.parse(unparse(e_), mode="eval").body)
        return ast.GeneratorExp(elt=mk(inner.value.value), generators=[ast.comprehension(
            target=mk(b_[0].target), iter=mk(b_[0].iter), ifs=[mk(t_) for t_ in ifs], is_async=0)])
    if ok:
        j, rj = [unparse(e) for e in outer.generators[0].target.elts]
        e = outer.elt
        ok = isinstance(e, ast.BinOp) and isinstance(e.op, ast.Mult)
        if ok:
            y, pr = (e.left, e.right) if isinstance(e.right, ast.Call) else (e.right, e.left)
            # the product of the factors: prod(G) with prod a local reduce(operator.mul, .), or that reduce in line
            ig = None
            if isinstance(pr, ast.Call) and isinstance(pr.func, ast.Name) and pr.func.id in prod_ok and len(pr.args) == 1:
                ig = pr.args[0]
            elif isinstance(pr, ast.Call) and unparse(pr.func) == "reduce" and len(pr.args) == 2 \
                    and unparse(pr.args[0]) in ("operator.mul", "lambda a, b: a * b"):
                ig = pr.args[1]
            if isinstance(ig, ast.Call):
                ig = _as_genexp(ig)
            if ig is None or not isinstance(ig, ast.GeneratorExp):
                if isinstance(pr, ast.Call) and isinstance(pr.func, ast.Name) and pr.func.id == "prod" and not prod_ok:
                    ok = False      # a prod that does not multiply
                else:
                    raise AnalysisError("lagrange.func: product of the basis factors not recognised in %s" % short(e))
            ok = ok and unparse(y) == "yv[%s]" % j
            if ok:
                rk = unparse(ig.generators[0].target)
                try:
                    term = Evaluator().ev(ig.elt)
                    ok = term == (RF.sym(kv) - RF.sym(rk)) / (RF.sym(rj) - RF.sym(rk)) \
                        and unparse(ig.generators[0].iter) == "xv" and len(ig.generators[0].ifs) == 1 \
                        and unparse(ig.generators[0].ifs[0]) in ("%s != %s" % (rj, rk), "%s != %s" % (rk, rj))
                except Inconclusive:
                    ok = False
    chk.decide(ok, "C07.lagrange", W("lagrange[func]"), short(lam[0]),
               why="basis polynomial must be prod (k - r_k)/(r_j - r_k) over the other abscissae, weighted by y_j", node=lam[0])
    un = [s for s in docstring_free(lf.body) if isinstance(s, ast.Assign) and unparse(s.targets[0]) in ("(xv, yv)", "xv, yv")]
    chk.decide(len(un) == 1 and unparse(un[0].value) in ("xzip(*pairs)", "zip(*pairs)"), "C07.lagrange", W("lagrange[func]"),
               short(un[0]) if un else "unzip missing", why="abscissae first, ordinates second", node=lf)
    lpoly = repo.strategy(LP, "lagrange", "poly").node
    chk.decide(unparse(docstring_free(lpoly.body)[-1]) == "return lagrange.func(pairs)(x)", "C07.lagrange",
               W("lagrange[poly]"), short(docstring_free(lpoly.body)[-1]), why="interpolating polynomial = the function "
               "evaluated at the Poly x", node=lpoly)
    xv = repo.find_assign(LP, "x")
    chk.decide(unparse(xv) == "Poly({1: 1})", "C07.lagrange", W("x"), "x = " + unparse(xv), why="x must be the identity "
               "polynomial", node=xv)
