"""C17  Audio playback delivers every sample once, in order, and always shuts down."""
import ast

from ..core import (AnalysisError, FuncTypes, unparse, short, canon, canon_call, base_name, own_nodes,
                    docstring_free)
from .. import e8

EXPLANATION = (
    "Static analysis of AudioIO / AudioThread (lazy_io.py) - the concurrency structure, not the schedules. E8: locks and "
    "events are the attributes assigned threading.Lock()/Event() in __init__; lock regions are 'with self.<lock>' bodies "
    "extended through the resolved call graph (receivers typed from constructor calls, containers filled with such "
    "objects and constructor arguments). Decided: the lock-order graph (AudioIO.halting -> AudioIO.lock, AudioIO.halting "
    "-> AudioThread.lock, AudioThread.lock -> AudioIO.lock) is acyclic; join() is reached holding only locks the joined "
    "thread's run() never takes; every write of _threads happens under AudioIO.lock; the backend's terminate() is "
    "dominated by the test-and-set of `finished` under the halting lock (at most once) and play() tests `finished` under "
    "AudioIO.lock before creating a thread; close() stops (unless wait) and joins every listed thread, and run()'s "
    "epilogue closes the device stream and unlists the thread under its lock, which is what lets close() progress. Stop "
    "protocol: taking the state stop() leaves behind (halting flag raised, `go` set or cleared as the code says), an "
    "abstract walk of run()'s loop shows that (a) a thread blocked in an untimed go.wait() is woken by stop(), and (b) "
    "from the return of every wait and from the top of every iteration the loop reaches `break` after at most one more "
    "chunk - so close() always returns. Every chunk of chunks(audio, size=chunk_size*channels) is written exactly once, "
    "in order, unconditionally. Not decided: the bytes delivered under every interleaving of pause/play."
    " Also: Without stop() no path leaves the chunk loop early (nothing lost); close() loops until the thread list is empty; __exit__/__del__ close. ")

UNDECIDED = ["byte-exact delivery under all interleavings of control calls (needs schedule exploration)"]

LI = "lazy_io"


def _calls_self(node, M):
    return [n.func.attr for n in ast.walk(node) if isinstance(n, ast.Call) and isinstance(n.func, ast.Attribute)
            and unparse(n.func.value) == "self" and n.func.attr in M.methods]


def _has_join(node):
    return any(isinstance(n, ast.Call) and isinstance(n.func, ast.Attribute) and n.func.attr == "join" for n in ast.walk(node))


def _reaches_join(M):
    """statement -> does it (or a method of the class it calls, transitively) contain a join() call"""
    memo = {}

    def meth(name, depth=0):
        if name in memo:
            return memo[name]
        memo[name] = False
        fn = M.methods[name]
        memo[name] = _has_join(fn) or (depth < 5 and any(meth(c, depth + 1) for c in _calls_self(fn, M)))
        return memo[name]

    def reach(st):
        return _has_join(st) or any(meth(c) for c in _calls_self(st, M))
    return reach


def _close_loops(M, close):
    """the ``while`` loops that join the players: in close() itself or in a method of the class it calls"""
    seen, todo, out, owner = set(), ["close"], [], {}
    while todo:
        name = todo.pop()
        if name in seen:
            continue
        seen.add(name)
        fn = M.methods[name] if name != "close" else close
        for n in ast.walk(fn):
            if isinstance(n, ast.While) and _has_join(n) and not any(
                    isinstance(x, ast.While) and x is not n and _has_join(x) for x in ast.walk(n)):
                out.append(n)
                owner[id(n)] = name
        todo.extend(_calls_self(fn, M))
    return out, owner


def _close_loop_rule(chk, M, close, loops, W, owner=None):
    """empty list: the loop ends (and nothing is stopped or joined); a listed thread: one element of the list is taken,
    stopped unless ``wait`` and joined, and the loop goes on - whatever the spelling of the emptiness test"""
    from ..dtable import Facts, walk, holds, RAISE
    where = W("AudioIO.close")
    ok = len(loops) == 1
    chk.decide(ok, "C17.close", where, "one loop joins the players (found %d)" % len(loops),
               why="every player must be stopped (when not waiting) and joined before the backend is terminated", node=close)
    if not ok:
        return
    loop = loops[0]
    # a loop that is the last statement of a helper method: ``return`` there only leaves the helper, like ``break``
    own = (owner or {}).get(id(loop), "close")
    own_fn = close if own == "close" else M.methods[own]
    returns_like_break = own != "close" and docstring_free(own_fn.body)[-1] is loop

    def is_elem(v, names):
        if isinstance(v, ast.Name):
            return v.id in names
        return isinstance(v, ast.Subscript) and unparse(v.value) == "self._threads" and unparse(v.slice) in ("0", "-1")

    def scenario(n, wait):
        F = Facts(lens={"self._threads": n}, truths={"self.wait": wait})
        exc = {"self._threads[0]": "IndexError", "self._threads[-1]": "IndexError"} if n == 0 else {}
        names = set()

        def rb(name, value, F_):
            F_.forget(name)
            names.discard(name)
            v = value
            if isinstance(v, ast.Call) and isinstance(v.func, ast.Attribute) and unparse(v.func.value) == "self" \
                    and not v.args and not v.keywords and v.func.attr in M.methods:
                sub = walk(docstring_free(M.methods[v.func.attr].body), F_, where, strict=True, flow=True, exc=exc)
                if sub.end == "return" and sub.last.value is not None:
                    v = sub.last.value
                elif sub.end in ("return", "fall"):
                    v = ast.Constant(value=None)
                else:
                    raise AnalysisError("%s: %s does not return in this scenario" % (where, unparse(value)))
            if isinstance(v, ast.Constant) and v.value is None:
                F_.none.add(name)
            elif is_elem(v, names):
                F_.kinds[name] = {"AudioThread"}
                names.add(name)
        r = holds(loop.test, F)
        if r is None or r is RAISE:
            raise AnalysisError("%s: loop test not described by the scenario: %s" % (where, unparse(loop.test)))
        if not r:
            return "exit", [], names
        wk = walk(loop.body, F, where, rebind=rb, strict=True, flow=True, exc=exc)
        calls = []
        for st in wk.ran:
            for c in ast.walk(st):
                if isinstance(c, ast.Call) and isinstance(c.func, ast.Attribute) and c.func.attr in ("stop", "join"):
                    calls.append((c.func.attr, unparse(c.func.value) in names))
        return wk.end, calls, names
    try:
        for wait in (True, False):
            end, calls, _ = scenario(0, wait)
            if end == "return" and returns_like_break:
                end = "break"
            chk.decide(end in ("exit", "break") and not calls, "C17.close", where,
                       "no thread listed (wait=%s): the loop ends" % wait,
                       why="with an empty list the loop must stop without touching a thread (it %s, calls %s)"
                           % ({"raise": "raises", "fall": "goes on", "continue": "goes on", "return": "returns from close()"}.get(end, end),
                              [c for c, _ in calls]), node=loop)
            end, calls, names = scenario(1, wait)
            want = [("join", True)] if wait else [("stop", True), ("join", True)]
            chk.decide(end in ("fall", "continue") and calls == want, "C17.close", where,
                       "a thread is listed (wait=%s): %s, and the loop goes on" % (wait, " then ".join(c for c, _ in want)),
                       why="every player must be stopped (when not waiting) and joined: the loop goes on until the list is "
                           "empty (loop %s; calls on the listed thread: %s)"
                           % ({"exit": "ends", "break": "ends", "return": "returns", "raise": "raises"}.get(end, "goes on"),
                              [c if on else c + " (other object)" for c, on in calls]), node=loop)
    except AnalysisError as ex:
        chk.defer(str(ex))
    # the list is read under its lock
    for name, fn in M.methods.items():
        fn = close if name == "close" else fn
        for n in ast.walk(fn):
            if isinstance(n, ast.Subscript) and unparse(n.value) == "self._threads" and isinstance(n.ctx, ast.Load):
                p = getattr(n, "_parent", None)
                locked = False
                while p is not None and p is not fn:
                    if isinstance(p, ast.With) and any(unparse(i.context_expr) == "self.lock" for i in p.items):
                        locked = True
                    p = getattr(p, "_parent", None)
                chk.decide(locked, "C17.close", W("AudioIO." + name), "%s read under self.lock" % short(n),
                           why="the list is shared with the players' epilogues", node=n)


def run(chk, repo):
    mod = repo.mod(LI)
    W = lambda q: "%s:%s" % (mod.relpath, q)
    model = e8.Model(mod.tree, ("AudioIO", "AudioThread"))
    chk.require(set(model.classes) == {"AudioIO", "AudioThread"}, "AudioIO / AudioThread classes not found")
    M, T = model.classes["AudioIO"], model.classes["AudioThread"]
    chk.facts["locks"] = {"AudioIO": sorted(M.locks), "AudioThread": sorted(T.locks)}
    chk.facts["events"] = {"AudioIO": sorted(M.events), "AudioThread": sorted(T.events)}
    chk.facts["receiver_types"] = {"AudioIO": M.attr_types, "AudioThread": T.attr_types}
    chk.require(M.locks >= {"halting", "lock"} and "lock" in T.locks and "go" in T.events,
                "locks/events not recognised: %s %s %s" % (M.locks, T.locks, T.events))
    chk.require(M.attr_types.get("[]_threads") == "AudioThread" and T.attr_types.get("device_manager") == "AudioIO",
                "receiver typing failed: %s %s" % (M.attr_types, T.attr_types))

    # ------------------------------------------------------------- lock order
    chk.rule("C17.order", "lock-order graph over all entry points (close, play, thread_finished, run, stop, pause, play) "
                          "is acyclic")
    entries = [("AudioIO", m) for m in ("close", "play", "thread_finished", "terminate", "__exit__", "__del__")] + \
              [("AudioThread", m) for m in ("run", "stop", "pause", "play")]
    events = []
    for c, m in entries:
        if m in model.classes[c].methods:
            events.extend(model.walk(c, m))
    edges = set()
    for ev in events:
        if ev.kind == "acquire":
            for h in ev.held:
                edges.add((h, ev.detail))
    cyc = e8.cycles(edges)
    self_dead = [e for e in edges if e[0] == e[1]]
    chk.decide(not cyc and not self_dead, "C17.order", W("<lock-order graph>"), "edges: %s" % sorted(edges),
               why="cycle %s: two threads can wait for each other forever" % (cyc[:1] or self_dead), node=mod.tree)
    chk.floor("C17.order", len(edges), 3, "lock-order edges")
    chk.facts["calls_resolved"] = model.resolved
    chk.facts["calls_unresolved"] = sorted(set(model.unresolved))

    # -------------------------------------------------------------------- join
    chk.rule("C17.join", "at every join() the locks held are disjoint from the locks the joined thread's run() can take")
    run_locks = {ev.detail for ev in model.walk("AudioThread", "run") if ev.kind == "acquire"}
    joins = [ev for ev in events if ev.kind == "join"]
    for ev in joins:
        inter = set(ev.held) & run_locks
        chk.decide(not inter, "C17.join", W("%s.%s" % (ev.cls, ev.method)), "%s holding %s; run() takes %s"
                   % (short(ev.node), list(ev.held), sorted(run_locks)),
                   why="join while holding %s which the joined thread needs to finish: deadlock" % sorted(inter), node=ev.node)
    chk.floor("C17.join", len(joins), 1, "join sites")

    # ------------------------------------------------------------------ writes
    chk.rule("C17.writes", "_threads is written (append/remove/...) only under AudioIO.lock (outside __init__)")
    ws = [ev for ev in events if ev.kind == "write:_threads"]
    for ev in ws:
        chk.decide("AudioIO.lock" in ev.held, "C17.writes", W("%s.%s" % (ev.cls, ev.method)),
                   "%s under %s" % (short(ev.node), list(ev.held)), why="unsynchronised update of the thread list", node=ev.node)
    chk.floor("C17.writes", len(ws), 2, "writes of _threads")

    # -------------------------------------------------------------------- once
    chk.rule("C17.once", "terminate(): inside 'with self.halting', under 'if not self.finished' whose first statement sets "
                         "finished = True; play(): under self.lock raises when finished, before creating the thread")
    close = M.methods["close"]
    terms = [n for n in ast.walk(close) if isinstance(n, ast.Call) and unparse(n.func) == "self._pa.terminate"]
    chk.require(len(terms) == 1, "AudioIO.close: self._pa.terminate() not found exactly once")
    chain = []
    p = terms[0]._parent
    while p is not None and p is not close:
        chain.append(p)
        p = getattr(p, "_parent", None)
    withs = [n for n in chain if isinstance(n, ast.With) and any(unparse(i.context_expr) == "self.halting" for i in n.items)]
    ok = bool(withs)
    why_ = "self._pa.terminate() is not inside 'with self.halting'"
    if ok:
        # which statements of the guarded block run when close() was / was not called before (guards evaluated)
        from ..dtable import Facts, walk as dt_walk
        has_term = lambda st: any(isinstance(n, ast.Call) and unparse(n.func) == "self._pa.terminate" for n in ast.walk(st))
        again = dt_walk(withs[-1].body, Facts(truths={"self.finished": True}), W("AudioIO.close"), strict=False)
        first = dt_walk(withs[-1].body, Facts(truths={"self.finished": False}), W("AudioIO.close"), strict=False)
        effects = [st for st in again.ran if not isinstance(st, (ast.Return, ast.Pass))]
        if effects:
            ok, why_ = False, "a repeated close() still runs: %s" % short(effects[0])
        else:
            marks = [i for i, st in enumerate(first.ran) if unparse(st) == "self.finished = True"]
            term_at = [i for i, st in enumerate(first.ran) if has_term(st)]
            calls_before = [st for st in first.ran[:marks[0]] if any(isinstance(n, ast.Call) for n in ast.walk(st))] if marks else []
            if not term_at:
                ok, why_ = False, "the first close() does not reach self._pa.terminate()"
            elif not marks or marks[0] > term_at[0]:
                ok, why_ = False, "finished is not set before the backend is terminated"
            elif calls_before:
                ok, why_ = False, "%s runs before finished is set" % short(calls_before[0])
    chk.decide(ok, "C17.once", W("AudioIO.close"), "under 'with self.halting': nothing runs when finished is set; otherwise it "
               "is set first and the backend terminated",
               why="concurrent or repeated close() calls could terminate the backend twice (%s)" % why_, node=terms[0])
    others = [n for n in ast.walk(mod.tree) if isinstance(n, ast.Call) and unparse(n.func).endswith("_pa.terminate")]
    chk.decide(len(others) == 1, "C17.once", W("AudioIO"), "%d call site(s) of _pa.terminate()" % len(others),
               why="backend termination must have a single guarded call site", node=mod.tree)
    tm = M.methods.get("terminate")
    chk.decide(tm is not None and unparse(docstring_free(tm.body)[-1]) == "self.close()", "C17.once", W("AudioIO.terminate"),
               "terminate() delegates to close()", why="direct termination would bypass the guard", node=tm or close)
    play = M.methods["play"]
    pb = docstring_free(play.body)
    ok = len(pb) == 1 and isinstance(pb[0], ast.With) and unparse(pb[0].items[0].context_expr) == "self.lock"
    if ok:
        wb = pb[0].body
        ok = isinstance(wb[0], ast.If) and unparse(wb[0].test) == "self.finished" and isinstance(wb[0].body[0], ast.Raise) \
            and [unparse(s) for s in wb[1:]] == ["new_thread = AudioThread(self, audio, **kwargs)",
                                                  "self._threads.append(new_thread)", "new_thread.start()", "return new_thread"]
    chk.decide(ok, "C17.once", W("AudioIO.play"), "under self.lock: raise if finished; create, list, start, return",
               why="a thread created after close() would never be stopped/joined; the list must be updated before start",
               node=play)

    # ------------------------------------------------------------- close loop
    chk.rule("C17.close", "close(): while threads remain: take the first under self.lock, stop it unless wait, join it; "
                          "run() epilogue: under its lock, if still listed: close the stream and thread_finished(self)")
    loops, loop_owner = _close_loops(M, close)
    _close_loop_rule(chk, M, close, loops, W, loop_owner)
    for dn in ("__exit__", "__del__"):
        dm = M.methods.get(dn)
        if dm is not None:
            calls_ = [st for st in docstring_free(dm.body) if isinstance(st, ast.Expr) and unparse(st.value) == "self.close()"]
            chk.decide(len(calls_) == 1 and len(docstring_free(dm.body)) == 1, "C17.close", W("AudioIO." + dn), "%s -> self.close()" % dn,
                       why="leaving the with-block (or dropping the manager) must close it", node=dm)
    asserts = [n for n in ast.walk(close) if isinstance(n, ast.Assert)]
    for a_ in asserts:
        from ..dtable import Facts, holds
        r_ = holds(a_.test, Facts(lens={"self._pa._streams": 0}))
        chk.decide(r_ is True or r_ is None, "C17.close", W("AudioIO.close"), short(a_),
                   why="with every device stream closed the assertion must hold, or close() raises instead of terminating", node=a_)
    if loops and withs:
        reach = _reaches_join(M)
        order = [("join" if reach(st) else "terminate") for st in first.ran if reach(st) or has_term(st)]
        chk.decide(order[:1] == ["join"] and "join" not in order[order.index("terminate"):] if "terminate" in order else False,
                   "C17.close", W("AudioIO.close"), "threads are joined before terminate()",
                   why="terminating the backend under running players (order of the statements that run: %s)" % order, node=close)
    run_ = T.methods["run"]
    rb = docstring_free(run_.body)
    epi = rb[-1]
    ok = isinstance(epi, ast.With) and unparse(epi.items[0].context_expr) == "self.lock" \
        and unparse(epi.body[0]) == "if self in self.device_manager._threads:\n    self.stream.close()\n    self.device_manager.thread_finished(self)"
    chk.decide(ok, "C17.close", W("AudioThread.run"), "epilogue: " + short(epi, 140),
               why="a finished player must close its device stream and remove itself from the list (once), otherwise "
                   "close() joins it forever / streams survive", node=epi)
    tf = M.methods["thread_finished"]
    chk.decide(unparse(docstring_free(tf.body)[-1]) == "with self.lock:\n    self._threads.remove(thread)", "C17.close",
               W("AudioIO.thread_finished"), short(docstring_free(tf.body)[-1]), why="unlist under the list lock", node=tf)

    # ------------------------------------------------------------ stop protocol
    chk.rule("C17.stop", "stop protocol: with the state stop() leaves (halting raised; go set/cleared as written), (a) an "
                         "untimed go.wait() in run() is released by stop(); (b) from the return of each wait and from the "
                         "top of an iteration every path reaches 'break' within one more chunk")
    stop = T.methods["stop"]
    sb = docstring_free(stop.body)
    ok = len(sb) == 1 and isinstance(sb[0], ast.With) and unparse(sb[0].items[0].context_expr) == "self.lock"
    chk.decide(ok, "C17.stop", W("AudioThread.stop"), "stop() runs under the thread's lock", why="control calls are serialised", node=stop)
    body = sb[0].body if ok else sb
    def raises_flag(s):
        # 'self.halting = True', possibly under 'if not self.halting:' (the other arm means it is up already)
        if unparse(s) == "self.halting = True":
            return True
        return isinstance(s, ast.If) and unparse(s.test) in ("not self.halting", "self.halting is False", "self.halting == False") \
            and any(raises_flag(x) for x in s.body)
    sets_halting = any(raises_flag(s) for s in body)
    go_ops = [unparse(s.value.func).split(".")[-1] for s in body if isinstance(s, ast.Expr) and isinstance(s.value, ast.Call)
              and unparse(s.value.func) in ("self.go.set", "self.go.clear")]
    go_after = go_ops[-1] if go_ops else None        # None: unchanged
    chk.decide(sets_halting, "C17.stop", W("AudioThread.stop"), "raises the halting flag", why="the stop message is never sent", node=stop)
    # ... on every path, whatever the flags are when stop() is called (a second stop() after a pause() has to wake the
    # thread again: the halting flag and the go event are independent)
    sets_ = [n for n in ast.walk(stop) if isinstance(n, ast.Expr) and unparse(n.value) == "self.go.set()"]
    first_set = min([(n.lineno, n.col_offset) for n in sets_] or [(10 ** 9, 0)])
    # an exit before the event is set / the event set under a condition (a guard on the flag alone is harmless)
    early = [n for n in ast.walk(stop) if isinstance(n, (ast.Return, ast.Raise)) and (n.lineno, n.col_offset) < first_set]
    guarded_ops = [n for n in ast.walk(stop) if isinstance(n, ast.If) and any(
        unparse(x) == "self.go.set()" for b_ in (n.body + n.orelse) for x in ast.walk(b_) if isinstance(x, ast.Expr))
        and not (n.orelse and all(any(unparse(x) == "self.go.set()" for y in arm for x in ast.walk(y) if isinstance(x, ast.Expr))
                                  for arm in (n.body, n.orelse)))]
    chk.decide(not early and not guarded_ops and "set" in go_ops, "C17.stop", W("AudioThread.stop"),
               "the flag is raised and the event set unconditionally (%d early exits, %d guards)" % (len(early), len(guarded_ops)),
               why="a stop() that returns early / is guarded (e.g. 'if self.halting: return') no longer sets the go event: "
                   "after stop - pause the player sleeps in go.wait() for ever and close() never returns", node=stop)
    loop = [s for s in rb if isinstance(s, ast.For)]
    chk.require(len(loop) == 1, "AudioThread.run: chunk loop not found")
    lp = loop[0]
    ok = isinstance(lp.iter, ast.Call) and unparse(lp.iter.func) == "chunks" and unparse(lp.iter.args[0]) == "self.audio"
    kws = {k.arg: unparse(k.value) for k in lp.iter.keywords} if ok else {}
    ok = ok and kws.get("size") in ("self.chunk_size * self.nchannels", "self.chunk_size * self.channels") and kws.get("dfmt") == "self.dfmt"
    chk.decide(ok, "C17.deliver", W("AudioThread.run"), "for chunk in " + unparse(lp.iter),
               why="chunks of chunk_size frames (x channels) of the audio, in order", node=lp)
    # the chunk strategies the players draw from: one buffer per call (players run concurrently)
    from .c18 import buffers_built_here
    for sname_ in ("struct", "array"):
        cs_ = repo.strategy(LI, "chunks", sname_, required=False) if hasattr(repo, "strategy") else None
        if cs_ is not None:
            buffers_built_here(chk, mod, cs_.node, "C17.deliver", W("chunks[%s]" % sname_))
    first = lp.body[0]
    ok = isinstance(first, ast.Expr) and unparse(first.value) == "self.write_stream(st, %s, self.chunk_size, False)" % unparse(lp.target)
    chk.decide(ok, "C17.deliver", W("AudioThread.run"), short(first), why="every chunk is written exactly once, first thing "
               "in its iteration, unconditionally", node=first)
    writes = [n for n in ast.walk(lp) if isinstance(n, ast.Call) and unparse(n.func) == "self.write_stream"]
    chk.decide(len(writes) == 1, "C17.deliver", W("AudioThread.run"), "%d write site(s) in the loop" % len(writes),
               why="a second write duplicates or reorders chunks", node=lp)
    waits = [n for n in ast.walk(lp) if isinstance(n, ast.Call) and unparse(n.func) == "self.go.wait"]
    # (a) wake-up
    for w in waits:
        timed = bool(w.args or w.keywords)
        chk.decide(timed or go_after == "set", "C17.stop", W("AudioThread.run"), "untimed %s is released by stop() (%s)"
                   % (short(w), "stop sets go" if go_after == "set" else "stop leaves go %s" % (go_after or "unchanged")),
                   why="a paused player blocked here is never woken by stop(): close() blocks in join() forever", node=w)
    chk.floor("C17.stop", len(waits), 1, "go.wait() sites in run()")
    # (b) reach break
    go_set = {"set": True, "clear": False}.get(go_after)     # None = unknown (either)

    halting_now = [True]

    def walk(stmts, blocked_ok):
        """returns set of outcomes over paths: 'break', 'fall' (end of body), 'blocked'"""
        outs = set()
        if not stmts:
            return {"fall"}
        st, rest = stmts[0], stmts[1:]
        if isinstance(st, ast.Break):
            return {"break"}
        if isinstance(st, ast.If):
            t = unparse(st.test)
            val = None
            if t == "self.halting":
                val = halting_now[0]
            elif t == "not self.halting":
                val = not halting_now[0]
            elif t == "not self.go.is_set()":
                val = None if go_set is None else (not go_set)
            elif t == "self.go.is_set()":
                val = go_set
            branches = []
            if val in (True, None):
                branches.append(list(st.body) + rest)
            if val in (False, None):
                branches.append(list(st.orelse) + rest)
            for b in branches:
                outs |= walk(b, blocked_ok)
            return outs
        if isinstance(st, ast.Expr) and isinstance(st.value, ast.Call) and unparse(st.value.func) == "self.go.wait":
            timed = bool(st.value.args or st.value.keywords)
            if not timed and go_set is not True:
                return {"blocked"}
            return walk(rest, blocked_ok)
        if isinstance(st, (ast.For, ast.While, ast.Try, ast.With)):
            raise AnalysisError("AudioThread.run: nested '%s' inside the chunk loop is outside the modelled fragment"
                                % type(st).__name__)
        return walk(rest, blocked_ok)
    try:
        top = walk(list(lp.body[1:]), False)          # after the write of this iteration
        chk.decide(top == {"break"}, "C17.stop", W("AudioThread.run"),
                   "after stop(), from the top of an iteration (after its write) every path breaks: %s" % sorted(top),
                   why="a running player keeps writing chunks after stop(): outcomes %s (fall = next chunk is written "
                       "without ever testing the flag, blocked = waits forever)" % sorted(top), node=lp)
        # pause()/play() may still be called after stop(): the flag must be honoured whatever state `go` is in
        saved = go_set
        outcomes = {}
        for state in (True, False):
            go_set = state
            outcomes[state] = walk(list(lp.body[1:]), False)
        go_set = saved
        chk.decide(all(o == {"break"} for o in outcomes.values()), "C17.stop", W("AudioThread.run"),
                   "halting is honoured at the top of an iteration whatever the go event is: set -> %s, cleared -> %s"
                   % (sorted(outcomes[True]), sorted(outcomes[False])),
                   why="after stop() a later pause()/play() changes `go` again: with the flag raised the loop must still "
                       "break; here a stopped-then-paused player blocks in go.wait() (close() with wait=True never "
                       "returns) or keeps playing", node=lp)
        # without stop() nothing may end the loop early: every chunk of the audio is written
        halting_now[0] = False
        saved = go_set
        quiet = {}
        for state in (True, False):
            go_set = state
            quiet[state] = walk(list(lp.body[1:]), False)
            for w in waits:
                go_set = True               # play() released the wait
                quiet[("resumed", state)] = walk(_after(w, lp), False)
        go_set = saved
        halting_now[0] = True
        chk.decide(all("break" not in o for o in quiet.values()), "C17.deliver", W("AudioThread.run"),
                   "without stop() no path leaves the chunk loop early (playing -> %s, paused -> %s, resumed -> %s)"
                   % (sorted(quiet[True]), sorted(quiet[False]), sorted(quiet.get(("resumed", False), []))),
                   why="a player that was never stopped breaks out of its loop: the rest of the audio is lost", node=lp)
        for w in waits:
            # statements after the wait within its block, then the rest of the enclosing blocks
            tail = _after(w, lp)
            res = walk(tail, False)
            okw = res <= {"break", "fall"} and ("fall" not in res or top == {"break"})
            chk.decide(okw and "blocked" not in res, "C17.stop", W("AudioThread.run"),
                       "after stop(), a player returning from %s reaches break within one more chunk: %s" % (short(w), sorted(res)),
                       why="a woken player does not see the halting flag before playing on: outcomes %s" % sorted(res), node=w)
    except AnalysisError:
        raise
    # pause / play
    for name, op in (("pause", "clear"), ("play", "set")):
        fn = T.methods[name]
        b = docstring_free(fn.body)
        ok = len(b) == 1 and isinstance(b[0], ast.With) and unparse(b[0].items[0].context_expr) == "self.lock" \
            and [unparse(s) for s in b[0].body] == ["self.go.%s()" % op]
        chk.decide(ok, "C17.stop", W("AudioThread." + name), short(b[0]), why="%s must %s the go event under the lock" % (name, op),
                   node=fn)
    ini = T.methods["__init__"]
    it = [unparse(s) for s in ast.walk(ini) if isinstance(s, (ast.Assign, ast.Expr))]
    chk.decide("self.go.set()" in it and "self.halting = False" in it, "C17.stop", W("AudioThread.__init__"),
               "a new player starts running (go set) and not halting", why="initial control state", node=ini)


def _after(call, loop):
    """Statements executed after the statement containing ``call``, up to the end of the loop body."""
    stmt = call
    while not isinstance(stmt, ast.stmt):
        stmt = stmt._parent
    tail = []
    cur = stmt
    while cur is not loop:
        parent = cur._parent
        for fld in ("body", "orelse"):
            blk = getattr(parent, fld, None)
            if isinstance(blk, list) and cur in blk:
                tail = tail + blk[blk.index(cur) + 1:]
        cur = parent
    return tail
