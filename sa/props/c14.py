"""C14  Window functions obey their periodic/symmetric, symmetry and overlap contracts."""
import ast
from fractions import Fraction

from ..core import (AnalysisError, FuncTypes, unparse, short, canon, canon_call, base_name, own_nodes,
                    docstring_free, parse_snippet)
from ..ratfun import RF, Evaluator, Inconclusive, opaque, OPAQUE_ARGS, sym_pow

EXPLANATION = (
    "Static analysis of the window generator (lazy_analysis.py). The 7 table entries and the two code templates are "
    "folded exactly as _generate_window_strategies does (sname = names[0], params_def default '') into 14 function "
    "texts, which are parsed; the generator function itself is checked to exec template.format(**entry) for window "
    "then wsymm, to alias non-distinct entries and to cross-link .periodic/.symm. On the reconstructed functions: the "
    "periodic one is [F(n, size) for n in range(size)], the symmetric one returns [1.0] when size == 1 and otherwise "
    "the same F over range(size) with size rebound to size-1 by a simultaneous tuple assignment - hence window.X(s) is "
    "exactly the length-s prefix of wsymm.X(s+1) for every s and every parameter. Each formula F equals the documented "
    "closed form in normal form. Symmetry: F is invariant under n -> size - n (atoms cos(2k*pi*n/size), "
    "sin((2k+1)*pi*n/size), abs(n - size/2) recognised by their arguments; closed under arithmetic). COLA: F is a "
    "first-degree trigonometric polynomial with harmonic set H; hop = size/m sums to a constant iff no non-zero k in H "
    "is a multiple of m (hann, hamming: m = 2, 4; blackman: m = 4; rect). Cross references of both dictionaries. Not "
    "decided: values in [0, 1] in floating point; the bartlett/triangular overlap sums.")

UNDECIDED = ["samples within [0, 1] in floating point", "bartlett / triangular constant overlap-add (piecewise linear argument)"]

LA = "lazy_analysis"

DOC_FORMS = {
    "hann": ".5 * (1 - cos(2 * pi * n / size))",
    "hamming": ".54 - .46 * cos(2 * pi * n / size)",
    "rect": "1.0",
    "bartlett": "1 - 2.0 / size * abs(n - size / 2.0)",
    "triangular": "1 - 2.0 / (size + 2) * abs(n - size / 2.0)",
    "blackman": "(1 - alpha) / 2 - .5 * cos(2 * pi * n / size) + alpha / 2 * cos(4 * pi * n / size)",
    "cos": "sin(pi * n / size) ** alpha",
}
ALIASES = {"hann": ("hann", "hanning"), "hamming": ("hamming",), "rect": ("rect", "dirichlet", "rectangular"),
           "bartlett": ("bartlett",), "triangular": ("triangular", "triangle"), "blackman": ("blackman",), "cos": ("cos",)}
COLA = {"hann": (2, 4), "hamming": (2, 4), "blackman": (4,), "rect": (1, 2, 4)}


def fold_table(node):
    if not isinstance(node, ast.List):
        raise AnalysisError("window._content_generation_table is not a list literal")
    rows = []
    for e in node.elts:
        if not (isinstance(e, ast.Call) and unparse(e.func) == "dict" and not e.args):
            raise AnalysisError("table entry is not dict(keyword=literal, ...): %s" % short(e))
        d = {}
        for k in e.keywords:
            try:
                d[k.arg] = ast.literal_eval(k.value)
            except Exception:
                raise AnalysisError("table entry value for %s is not a literal" % k.arg)
        rows.append((d, e))
    return rows


def symmetric_in_n(e, env):
    """Is expression e invariant under n -> size - n ?  (structural type system)"""
    if isinstance(e, ast.Constant):
        return True
    if isinstance(e, ast.Name):
        return e.id != "n"
    if isinstance(e, ast.UnaryOp):
        return symmetric_in_n(e.operand, env)
    if isinstance(e, ast.BinOp):
        if isinstance(e.op, ast.Pow):
            return symmetric_in_n(e.left, env) and "n" not in {x.id for x in ast.walk(e.right) if isinstance(x, ast.Name)}
        return symmetric_in_n(e.left, env) and symmetric_in_n(e.right, env)
    if isinstance(e, ast.Call) and isinstance(e.func, ast.Name) and len(e.args) == 1:
        try:
            arg = Evaluator(env).ev(e.args[0])
        except Inconclusive:
            return False
        n, size, pi = RF.sym("n"), RF.sym("size"), RF.sym("pi")
        refl = arg.subst({"n": size - n})
        if e.func.id == "cos":
            # cos(A): need A' = +-A + 2*pi*k
            for sgn in (1, -1):
                d = (refl - sgn * arg) / (2 * pi)
                if _is_integer(d):
                    return True
            return False
        if e.func.id == "sin":
            # sin(A') = sin(A) iff A' = A + 2*pi*k or A' = pi - A + 2*pi*k
            if _is_integer((refl - arg) / (2 * pi)):
                return True
            return _is_integer((refl + arg - pi) / (2 * pi))
        if e.func.id == "abs":
            return refl == arg or refl == -arg
        return "n" not in arg.symbols()
    return False


def _is_integer(rf):
    try:
        f = rf.as_fraction()
    except Inconclusive:
        return False
    return f.denominator == 1


def harmonics(rf):
    """Harmonic set of a first-degree trigonometric polynomial in cos(2*pi*k*n/size); None if not of that form."""
    n, size, pi = RF.sym("n"), RF.sym("size"), RF.sym("pi")
    H = {0}
    s = rf
    if set(s.d) != {()}:
        # denominator must not involve n or trig symbols
        for m in s.d:
            for sym, _ in m:
                if sym == "n" or sym.startswith(("cos(", "sin(", "abs(")):
                    return None
    for m in s.n:
        trig = [(sym, e) for sym, e in m if sym.startswith(("cos(", "sin(", "abs(", "pow("))]
        if any(sym == "n" for sym, _ in m):
            return None
        if not trig:
            continue
        if len(trig) != 1 or trig[0][1] != 1 or not trig[0][0].startswith("cos("):
            return None
        fname, args = OPAQUE_ARGS[trig[0][0]]
        k = args[0] * size / (2 * pi * n)
        try:
            kf = k.as_fraction()
        except Inconclusive:
            return None
        if kf.denominator != 1:
            return None
        H.add(abs(int(kf)))
    return H


class _Undecided(Exception):
    pass


class _Sub(ast.NodeTransformer):
    def __init__(self, env):
        self.env = env

    def visit_Name(self, n):
        if isinstance(n.ctx, ast.Load) and n.id in self.env and isinstance(self.env[n.id], ast.AST):
            import copy
            return copy.deepcopy(self.env[n.id])
        return n


class _GenInterp(object):
    """Abstract run of the body of the table loop for one scenario (entry distinct or not).  Locals are resolved to the
    expressions that define them; the observable steps are recorded as events."""
    def __init__(self, entry, distinct, present=True):
        self.entry, self.distinct = entry, distinct
        self.present = present          # is the 'distinct' key in the entry at all (absent means distinct)
        self.env = {}
        self.events = []

    def R(self, e):
        import copy
        return _Sub(self.env).visit(copy.deepcopy(e) if not hasattr(e, "_parent") else ast.parse(unparse(e), mode="eval").body)

    def txt(self, e):
        return unparse(self.R(e))

    def cond(self, t):
        r = self.R(t)
        if isinstance(r, ast.UnaryOp) and isinstance(r.op, ast.Not):
            return not self.cond(r.operand)
        if isinstance(r, ast.BoolOp):
            for v in r.values:
                c = self.cond(v)
                if isinstance(r.op, ast.And) and not c:
                    return False
                if isinstance(r.op, ast.Or) and c:
                    return True
            return isinstance(r.op, ast.And)
        u = unparse(r)
        if u in ("%s.get('distinct', True)" % self.entry,):
            return self.distinct
        if u == "%s.get('distinct')" % self.entry and self.present:
            return self.distinct
        if u == "%s['distinct']" % self.entry:
            if not self.present:
                raise _Undecided("%s read although the key may be missing (KeyError)" % u)
            return self.distinct
        if u in ("'distinct' in %s" % self.entry, "'distinct' not in %s" % self.entry):
            return self.present == (" not in " not in u)
        if isinstance(r, ast.Compare) and len(r.ops) == 1 and isinstance(r.ops[0], (ast.Is, ast.IsNot)):
            l, rr = unparse(r.left), unparse(r.comparators[0])
            if l in ("window", "wsymm") and rr in ("window", "wsymm"):
                return (l == rr) == isinstance(r.ops[0], ast.Is)
        raise _Undecided("condition %s" % u)

    def seq(self, e):
        r = self.R(e)
        if isinstance(r, ast.IfExp):
            r = r.body if self.cond(r.test) else r.orelse
        if isinstance(r, (ast.List, ast.Tuple)):
            return list(r.elts)
        raise _Undecided("sequence %s" % unparse(r))

    def nsdict(self, e):
        if isinstance(e, ast.Name) and e.id in getattr(self, "preloop", ()):
            return None     # one namespace object built before the loop and handed to every exec: shared, not a copy
        r = self.R(e)
        # a copy of a namespace built once: dict(base) / base.copy() / dict(base, extra=..)
        if isinstance(r, ast.Call) and unparse(r.func) == "dict" and len(r.args) == 1:
            base = self.nsdict(r.args[0])
            if base is not None:
                base = dict(base)
                base.update({k.arg: unparse(k.value) for k in r.keywords if k.arg})
                return base
        if isinstance(r, ast.Call) and isinstance(r.func, ast.Attribute) and r.func.attr == "copy" and not r.args:
            return self.nsdict(r.func.value)
        if isinstance(r, ast.Call) and unparse(r.func) == "dict" and not r.args:
            return {k.arg: unparse(k.value) for k in r.keywords}
        if isinstance(r, ast.Dict):
            return {ast.literal_eval(k): unparse(v) for k, v in zip(r.keys, r.values)}
        return None

    def run(self, stmts):
        self.block(stmts)
        return self.events

    def block(self, stmts):
        """returns 'break' when a break was executed"""
        i = 0
        while i < len(stmts):
            st = stmts[i]
            nxt = stmts[i + 1] if i + 1 < len(stmts) else None
            i += 1
            if isinstance(st, ast.Assign):
                val = self.R(st.value)
                for t in st.targets:
                    if isinstance(t, ast.Name):
                        self.env[t.id] = val
                        # another name for an object built before the loop (no copy) is that same object
                        pre_ = set(getattr(self, "preloop", ()))
                        if isinstance(st.value, ast.Name) and st.value.id in pre_:
                            self.preloop = pre_ | {t.id}
                        elif t.id in pre_:
                            self.preloop = pre_ - {t.id}
                    elif isinstance(t, (ast.Tuple, ast.List)) and isinstance(val, (ast.Tuple, ast.List)) \
                            and len(t.elts) == len(val.elts) and all(isinstance(x, ast.Name) for x in t.elts):
                        for x, v in zip(t.elts, val.elts):
                            self.env[x.id] = v
                    elif isinstance(t, (ast.Subscript, ast.Attribute)):
                        self.events.append(("store", self.txt(t), unparse(val)))
                    else:
                        raise _Undecided("assignment %s" % short(st))
                continue
            if isinstance(st, ast.Expr) and isinstance(st.value, ast.Call):
                c = st.value
                f = unparse(c.func)
                if f == "%s.setdefault" % self.entry and len(c.args) == 2:
                    self.events.append(("setdefault", "%s[%s]" % (self.entry, unparse(c.args[0])), unparse(c.args[1])))
                    continue
                if f == "exec" and 2 <= len(c.args) <= 3:
                    if len(c.args) == 3 and self.txt(c.args[1]) != self.txt(c.args[2]):
                        raise _Undecided("exec with different globals and locals")
                    nsname = c.args[1].id if isinstance(c.args[1], ast.Name) else None
                    self.events.append(("exec", self.txt(c.args[0]), self.nsdict(c.args[1]), nsname))
                    if nsname:
                        # what the namespace holds afterwards is referred to by the local's name
                        self.env.pop(nsname, None)
                    continue
                if f == "reduce" and len(c.args) == 3 and isinstance(c.args[0], ast.Lambda):
                    lam = c.args[0]
                    ps = [a.arg for a in lam.args.args]
                    if len(ps) == 2 and unparse(lam.body) == "%s(%s)" % (ps[1], ps[0]):
                        self.events.append(("decorate", [unparse(self.R(x)) for x in self.seq(c.args[1])], self.txt(c.args[2])))
                        continue
                # D2(D1(obj)): decorators applied by hand, innermost first
                chain, cur = [], self.R(c)
                while isinstance(cur, ast.Call) and len(cur.args) == 1 and not cur.keywords \
                        and isinstance(cur.func, ast.Call):
                    chain.append(unparse(cur.func))
                    cur = cur.args[0]
                if chain and isinstance(cur, ast.Subscript):
                    self.events.append(("decorate", list(reversed(chain)), unparse(cur)))
                    continue
                raise _Undecided("call %s" % short(st))
            if isinstance(st, ast.If):
                # "k not in entry: entry[k] = v"  is setdefault
                t = st.test
                if isinstance(t, ast.Compare) and len(t.ops) == 1 and isinstance(t.ops[0], ast.NotIn) \
                        and unparse(t.comparators[0]) == self.entry and not st.orelse and len(st.body) == 1 \
                        and isinstance(st.body[0], ast.Assign) and unparse(st.body[0].targets[0]) == "%s[%s]" % (
                            self.entry, unparse(t.left)):
                    self.events.append(("setdefault", unparse(st.body[0].targets[0]), unparse(st.body[0].value)))
                    continue
                r = self.block(st.body if self.cond(t) else st.orelse)
                if r == "break":
                    return r
                continue
            if isinstance(st, ast.For) and isinstance(st.target, ast.Name):
                # decorator application loop:  f = ns[..] ; for d in decos: f = d(f)
                if len(st.body) == 1 and isinstance(st.body[0], ast.Assign) and isinstance(st.body[0].targets[0], ast.Name) \
                        and unparse(st.body[0].value) == "%s(%s)" % (st.target.id, st.body[0].targets[0].id):
                    fname = st.body[0].targets[0].id
                    if fname not in self.env:
                        raise _Undecided("decorated object unknown")
                    self.events.append(("decorate", [unparse(self.R(x)) for x in self.seq(st.iter)], unparse(self.env[fname])))
                    continue
                try:
                    items = self.seq(st.iter)
                except _Undecided:
                    # some other iteration: its body is run once with an opaque element
                    items = [ast.Name(id="<each of %s>" % self.txt(st.iter), ctx=ast.Load())]
                for item in items:
                    self.env[st.target.id] = item
                    if self.block(st.body) == "break":
                        break
                continue
            if isinstance(st, ast.Break):
                return "break"
            if isinstance(st, (ast.Assert, ast.Pass)):
                continue
            raise _Undecided("statement %s" % short(st))
        return None


def _transparent_decorator(repo, text):
    """(True/False, description) for a module-level decorator whose wrapper can be read; None when unknown"""
    try:
        e = ast.parse(text, mode="eval").body
    except SyntaxError:
        return None
    if not isinstance(e, ast.Name):
        return None
    fn = repo.find(LA, e.id, required=False)
    if fn is None or not isinstance(fn, FuncTypes) or not fn.args.args:
        return None
    fparam = fn.args.args[0].arg
    inner = [x for x in fn.body if isinstance(x, FuncTypes)]
    rets = [x for x in fn.body if isinstance(x, ast.Return)]
    if not inner:
        ok = all(isinstance(r.value, ast.Name) and r.value.id == fparam for r in rets) and rets
        return (bool(ok), "returns the function itself" if ok else "returns something else than the function")
    w = inner[-1]
    wr = [n for n in ast.walk(w) if isinstance(n, ast.Return)]
    direct = all(isinstance(r.value, ast.Call) and isinstance(r.value.func, ast.Name) and r.value.func.id == fparam for r in wr)
    return (bool(wr) and direct, "wrapper returns the call's own result" if (wr and direct) else
            "wrapper returns %s" % ", ".join(sorted({short(r.value, 30) if r.value is not None else "None" for r in wr})))


def _region_hook(nval, sizeval):
    """decides the tests of conditional expressions in a window formula for one value of n (tests on n and size only)"""
    def hook(test):
        names = {x.id for x in ast.walk(test) if isinstance(x, ast.Name)}
        if not names <= {"n", "size"}:
            return None
        try:
            return bool(eval(compile(ast.Expression(body=test), "<window-test>", "eval"), {"__builtins__": {}},
                             {"n": nval, "size": sizeval}))
        except Exception:
            return None
    return hook


def _fold_trig(rf):
    """sin / cos at 0 and at pi (what n = 0 and n = size make of sin(pi * n / size)) as numbers; powers are left alone"""
    from ..ratfun import OPAQUE_ARGS
    sub = {}
    for s_ in rf.symbols():
        info = OPAQUE_ARGS.get(s_)
        if info and info[0] in ("sin", "cos") and len(info[1]) == 1:
            a = info[1][0]
            at0 = a.is_zero()
            atpi = a == RF.sym("pi")
            at2pi = a == 2 * RF.sym("pi")
            if info[0] == "sin" and (at0 or atpi or at2pi):
                sub[s_] = RF.const(0)
            elif info[0] == "cos" and (at0 or at2pi):
                sub[s_] = RF.const(1)
            elif info[0] == "cos" and atpi:
                sub[s_] = RF.const(-1)
    return rf.subst(sub) if sub else rf


def run(chk, repo):
    mod = repo.mod(LA)
    W = lambda q: "%s:%s" % (mod.relpath, q)
    table_node = repo.find_assign(LA, "window._content_generation_table")
    rows = fold_table(table_node)
    tp_node = repo.find_assign(LA, "window._code_template")
    ts_node = repo.find_assign(LA, "wsymm._code_template")
    if not (isinstance(tp_node, ast.Constant) and isinstance(ts_node, ast.Constant)):
        raise AnalysisError("window/wsymm._code_template are not string literals")
    tp, ts = tp_node.value, ts_node.value
    rtp, rts = repo.ref_assign(LA, "window._code_template"), repo.ref_assign(LA, "wsymm._code_template")
    ref_tp = rtp.value if isinstance(rtp, ast.Constant) and isinstance(rtp.value, str) else None
    ref_ts = rts.value if isinstance(rts, ast.Constant) and isinstance(rts.value, str) else None

    # ------------------------------------------------------------- generator
    chk.rule("C14.fresh", "decorators between the exec'd template and its registration hand back the call's own result")
    chk.rule("C14.generate", "_generate_window_strategies: for every table entry, sname = names[0], params_def defaults "
                             "to ''; for sdict in [window, wsymm]: exec(sdict._code_template.format(**entry)) with "
                             "pi/sin/cos/xrange in scope and registered under all names; non-distinct entries alias "
                             "wsymm[sname] = window[sname]; .periodic/.symm cross-links set on both strategies")
    gen = repo.find(LA, "_generate_window_strategies")
    loop = [s for s in docstring_free(gen.body) if isinstance(s, ast.For)]
    chk.require(len(loop) == 1 and unparse(loop[0].iter) == "window._content_generation_table"
                and isinstance(loop[0].target, ast.Name), "_generate_window_strategies: loop over the table not found")
    entry = loop[0].target.id
    Wg = W("_generate_window_strategies")
    S = "%s['names'][0]" % entry
    for distinct, present in ((True, True), (True, False), (False, True)):
        try:
            gi_ = _GenInterp(entry, distinct, present)
            # what the function binds once before the table loop (a namespace built once, a hoisted constant)
            gb_ = docstring_free(gen.body)
            for st_ in gb_[:gb_.index(loop[0])]:
                if isinstance(st_, ast.Assign) and len(st_.targets) == 1 and isinstance(st_.targets[0], ast.Name):
                    gi_.env[st_.targets[0].id] = gi_.R(st_.value)
                    gi_.preloop = set(getattr(gi_, "preloop", ())) | {st_.targets[0].id}
            ev = gi_.run(loop[0].body)
        except _Undecided as ex:
            raise AnalysisError("_generate_window_strategies not interpretable (%s)" % ex)
        tag = "[distinct=%s%s] " % (distinct, "" if present else ", key absent")
        stores = {e[1]: e[2] for e in ev if e[0] == "store"}
        chk.decide(stores.get("%s['sname']" % entry) == S, "C14.generate", Wg, tag + "%s['sname'] = %s" % (
            entry, stores.get("%s['sname']" % entry)), why="the generated function is named after the first alias", node=loop[0])
        chk.decide(("setdefault", "%s['params_def']" % entry, "''") in ev, "C14.generate", Wg, tag + "params_def defaults to ''",
                   why="entries without parameters must format an empty parameter list", node=loop[0])
        want_dicts = ["window", "wsymm"] if distinct else ["window"]
        execs = [(i, e) for i, e in enumerate(ev) if e[0] == "exec"]
        decos = [(i, e) for i, e in enumerate(ev) if e[0] == "decorate"]
        got_dicts = []
        for (i, e) in execs:
            m = [k for k in ("window", "wsymm") if e[1] == "%s._code_template.format(**%s)" % (k, entry)]
            got_dicts.append(m[0] if m else e[1])
        chk.decide(got_dicts == want_dicts, "C14.generate", Wg, tag + "templates exec'd: %s" % got_dicts,
                   why="expected the %s template(s), formatted with the table entry, in this order" % " then ".join(want_dicts),
                   node=loop[0])
        for (i, e) in execs:
            ns = e[2]
            need = {"pi": "pi", "sin": "sin", "cos": "cos", "xrange": "xrange"}
            okns = ns is not None and all(ns.get(k) == v for k, v in need.items())
            chk.decide(okns, "C14.generate", Wg, tag + "exec namespace %s" % (sorted(ns) if ns else ns),
                       why="formulas need pi, sin, cos and xrange (the scalar math ones) in scope", node=loop[0])
        chk.decide(len(decos) == len(execs) and all(d[0] > x[0] for d, x in zip(decos, execs)), "C14.generate", Wg,
                   tag + "%d registration(s) for %d generated function(s)" % (len(decos), len(execs)),
                   why="every generated function must be registered once, after it was generated", node=loop[0])
        for K, (i, e) in zip(got_dicts, decos):
            lst, target = e[1], e[2]
            want_reg = "%s.strategy(*%s['names'])" % (K, entry)
            want_doc = "format_docstring(**window._doc_kwargs(symm=%s is wsymm, **%s))" % (K, entry)
            chk.decide(want_reg in lst, "C14.generate", Wg, tag + "%s: registered by %s" % (K, [x for x in lst if "strategy" in x]),
                       why="must be stored in %s under all the names of the entry" % K, node=loop[0])
            chk.decide(lst.count(want_doc) == 1 and lst.index(want_doc) < (lst.index(want_reg) if want_reg in lst else 99),
                       "C14.generate", Wg, tag + "%s: docstring decorator applied before registration" % K,
                       why="expected %s" % want_doc, node=loop[0])
            chk.decide(target.endswith("[%s]" % S) or target.endswith("[%s['sname']]" % entry), "C14.generate", Wg,
                       tag + "%s: decorated object is %s" % (K, target), why="the function just generated (namespace[sname])",
                       node=loop[0])
            for extra in [x for x in lst if x not in (want_reg, want_doc)]:
                verdict = _transparent_decorator(repo, extra)
                if verdict is None:
                    raise AnalysisError("_generate_window_strategies: unknown decorator %s" % extra)
                chk.decide(verdict[0], "C14.fresh", Wg, tag + "%s: extra decorator %s: %s" % (K, extra, verdict[1]),
                           why="every call of a window strategy must evaluate the template again and return a new list; a "
                               "wrapper that hands out stored results makes callers share (and mutate) one list", node=loop[0])
        alias = [i for i, e in enumerate(ev) if e == ("store", "wsymm[%s]" % S, "window[%s]" % S)]
        if distinct:
            chk.decide(not alias, "C14.generate", Wg, tag + "no aliasing of distinct strategies", why="wsymm entry overwritten",
                       node=loop[0])
        else:
            chk.decide(len(alias) == 1 and decos and alias[0] > decos[-1][0], "C14.generate", Wg,
                       tag + "wsymm[sname] = window[sname] after the periodic function is registered",
                       why="non-distinct entries share the periodic function", node=loop[0])
        other = [e for e in ev if e[0] == "store" and (e[1].startswith(("window[", "wsymm[")) and e[1].endswith("]"))
                 and e != ("store", "wsymm[%s]" % S, "window[%s]" % S)]
        chk.decide(not other, "C14.generate", Wg, tag + "no other item of window / wsymm is assigned",
                   why="strategies are stored by the registration decorator only; %s overwrites entries" % (
                       ["%s = %s" % (e[1], e[2]) for e in other[:2]],), node=loop[0])
        links = {(e[1], e[2]) for e in ev if e[0] == "store" and (e[1].endswith(".periodic") or e[1].endswith(".symm"))}
        want_links = {("wsymm[%s].periodic" % S, "window[%s]" % S), ("window[%s].periodic" % S, "window[%s]" % S),
                      ("wsymm[%s].symm" % S, "wsymm[%s]" % S), ("window[%s].symm" % S, "wsymm[%s]" % S)}
        last_reg = max([i for i, _ in decos] + alias + [-1])
        link_idx = [i for i, e in enumerate(ev) if e[0] == "store" and (e[1].endswith(".periodic") or e[1].endswith(".symm"))]
        chk.decide(links == want_links and all(i > last_reg for i in link_idx), "C14.generate", Wg,
                   tag + "links: %s" % sorted(links), why=".periodic of both must be the window strategy and .symm the wsymm "
                   "strategy, set once both exist", node=loop[0])
    imports = {n.names[0].name for n in mod.tree.body if isinstance(n, ast.ImportFrom) and n.module == "math" for _ in [0]}
    mi = [n for n in mod.tree.body if isinstance(n, ast.ImportFrom) and n.module == "math"]
    names = {a.name for n in mi for a in n.names}
    chk.decide({"sin", "cos", "pi"} <= names, "C14.generate", W("<imports>"), "sin, cos, pi come from math",
               why="generated code must use the scalar math functions", node=mod.tree)
    called = [s for s in mod.tree.body if isinstance(s, ast.Expr) and unparse(s.value) == "_generate_window_strategies()"]
    chk.decide(len(called) == 1, "C14.generate", W("<module>"), "_generate_window_strategies() is called once at import",
               why="strategies would not exist / be generated twice", node=mod.tree)
    # dictionary-level links
    links = {}
    for s in mod.tree.body:
        if isinstance(s, ast.Assign) and len(s.targets) == 2 and all(isinstance(t, ast.Attribute) for t in s.targets):
            for t in s.targets:
                links[unparse(t)] = unparse(s.value)
    ok = links.get("window.symm") == "wsymm" and links.get("wsymm.symm") == "wsymm" \
        and links.get("window.periodic") == "window" and links.get("wsymm.periodic") == "window"
    chk.decide(ok, "C14.generate", W("<module>"), "window.symm is wsymm.symm is wsymm; window.periodic is wsymm.periodic is window",
               why="dictionary-level cross references wrong: %s" % links, node=mod.tree)

    # --------------------------------------------------------- reconstruct 14
    chk.rule("C14.prefix", "periodic = [F for n in range(size)]; symmetric = [1.0] if size == 1 else the same F over "
                           "range(size) with size rebound to size - 1 in one tuple assignment: window.X(s) is the prefix "
                           "of wsymm.X(s+1)")
    chk.rule("C14.formula", "table formula equals the documented closed form (normal form)")
    chk.rule("C14.symmetry", "F(n, size) is invariant under n -> size - n (so wsymm.X(size) is a palindrome)")
    chk.rule("C14.cola", "F is a first-degree trigonometric polynomial whose non-zero harmonics are not multiples of m "
                         "for the documented hops size/m")
    nfun = 0
    seen_names = set()
    for d, node in rows:
        names_ = d.get("names")
        chk.require(isinstance(names_, tuple) and names_, "table entry without names")
        sname = names_[0]
        seen_names.add(sname)
        fmt = dict(d)
        fmt["sname"] = sname
        fmt.setdefault("params_def", "")
        if sname in ALIASES:
            chk.decide(tuple(names_) == ALIASES.get(sname), "C14.generate", W("window[%s]" % sname),
                       "names %s" % (names_,), why="documented names are %s" % (ALIASES.get(sname),), node=node)
        else:
            chk.note("C14.generate", W("window[%s]" % sname), "strategy not on record: the generic rules (prefix, "
                     "symmetry) are applied, no closed form is compared")
        try:
            ptxt = tp.format(**fmt)
            stxt = ts.format(**fmt)
            pf = [n for n in parse_snippet(ptxt).body if isinstance(n, ast.FunctionDef)][0]
            sf = [n for n in parse_snippet(stxt).body if isinstance(n, ast.FunctionDef)][0]
        except (KeyError, IndexError, SyntaxError) as ex:
            chk.bad("C14.prefix", W("window[%s]" % sname), "generated text", "template instantiation does not yield a "
                    "function: %s" % ex, node=node)
            continue
        nfun += 2
        Wn = W("window/wsymm[%s]" % sname)
        # a template that was only re-worded (locals renamed, single exit, ...) generates functions that are provably
        # equivalent to the ones the confirmed template generates from this same table entry: judge those
        if ref_tp is not None and ref_ts is not None and (ref_tp != tp or ref_ts != ts):
            from ..equiv import same_function
            try:
                rpf = [n for n in parse_snippet(ref_tp.format(**fmt)).body if isinstance(n, ast.FunctionDef)][0]
                rsf = [n for n in parse_snippet(ref_ts.format(**fmt)).body if isinstance(n, ast.FunctionDef)][0]
                if same_function(pf, rpf):
                    pf = rpf
                if same_function(sf, rsf):
                    sf = rsf
            except (KeyError, IndexError, SyntaxError):
                pass
        # periodic shape
        pb = docstring_free(pf.body)
        okp = len(pb) == 1 and isinstance(pb[0], ast.Return) and isinstance(pb[0].value, ast.ListComp) \
            and unparse(pb[0].value.generators[0].iter) in ("xrange(size)", "range(size)") \
            and unparse(pb[0].value.generators[0].target) == "n" and not pb[0].value.generators[0].ifs
        sb = docstring_free(sf.body)
        oks = len(sb) == 3 and unparse(sb[0]) == "if size == 1:\n    return [1.0]" \
            and unparse(sb[1]) in ("size, indexes = (size - 1, xrange(size))", "size, indexes = (size - 1, range(size))") \
            and isinstance(sb[2], ast.Return) and isinstance(sb[2].value, ast.ListComp) \
            and unparse(sb[2].value.generators[0].iter) == "indexes" and unparse(sb[2].value.generators[0].target) == "n" \
            and not sb[2].value.generators[0].ifs
        same_sig = [a.arg for a in pf.args.args] == [a.arg for a in sf.args.args] and \
            [unparse(x) for x in pf.args.defaults] == [unparse(x) for x in sf.args.defaults] and pf.name == sf.name == sname
        okf = False
        piecewise = False
        if okp and oks:
            try:
                piecewise = any(isinstance(x_, ast.IfExp) for x_ in ast.walk(pb[0].value.elt))
                # a formula with special cases on n is read region by region: here the interior 0 < n < size
                fp = Evaluator(ifexp_hook=_region_hook(1, 4)).ev(pb[0].value.elt)
                fs = Evaluator(ifexp_hook=_region_hook(1, 4)).ev(sb[2].value.elt)
                okf = fp == fs
            except Inconclusive as ex:
                raise AnalysisError("window formula of %s not interpretable: %s" % (sname, ex))
        chk.decide(okp and oks and okf and same_sig, "C14.prefix", Wn,
                   "periodic: %s | symmetric: %s" % (short(pb[0], 70) if pb else "?", " ; ".join(short(s, 50) for s in sb[1:])),
                   why="shape broken (periodic ok=%s, symmetric ok=%s, same formula=%s, same signature=%s): the length-s "
                       "periodic window is no longer the prefix of the length-(s+1) symmetric one" % (okp, oks, okf, same_sig),
                   node=node)
        if not (okp and oks):
            continue
        # documented formula
        try:
            want = Evaluator().ev(ast.parse(DOC_FORMS[sname], mode="eval").body) if sname in DOC_FORMS else None
        except Inconclusive:
            want = None
        if want is None:
            chk.note("C14.formula", Wn, "no documented closed form on record for '%s'" % sname)
        else:
            chk.decide(fp == want, "C14.formula", Wn, "F = %s" % d.get("formula"),
                       why="documented closed form is %s" % DOC_FORMS[sname], node=node)
        if want is not None and piecewise:
            # ... and at the two edges, where a special case has to agree with the closed form for every parameter value
            for nval, label in ((0, "n = 0"), (4, "n = size")):
                try:
                    got_e = _fold_trig(Evaluator(ifexp_hook=_region_hook(nval, 4)).ev(pb[0].value.elt).subst(
                        {"n": RF.const(0) if nval == 0 else RF.sym("size")}))
                    want_e = _fold_trig(want.subst({"n": RF.const(0) if nval == 0 else RF.sym("size")}))
                except Inconclusive as ex:
                    raise AnalysisError("window formula of %s at %s not interpretable: %s" % (sname, label, ex))
                chk.decide(got_e == want_e, "C14.formula", Wn, "F at %s: %s" % (label, got_e.key()[:60]),
                           why="the special case gives %s where the documented closed form gives %s (they differ for some "
                               "parameter value, e.g. an exponent of 0: x ** 0 is 1 also at x = 0)"
                               % (got_e.key()[:60], want_e.key()[:60]), node=node)
        defaults = {a.arg: unparse(v) for a, v in zip(pf.args.args[-len(pf.args.defaults):], pf.args.defaults)} if pf.args.defaults else {}
        wantd = {"blackman": {"alpha": "0.16"}, "cos": {"alpha": "1"}}.get(sname, {})
        if sname in ALIASES:
            chk.decide(defaults == wantd, "C14.formula", Wn, "parameters %s" % (defaults or "none"),
                       why="documented defaults are %s" % wantd, node=node)
        # symmetry
        chk.decide(symmetric_in_n(pb[0].value.elt, {}), "C14.symmetry", Wn, "F(size - n) == F(n) for F = %s" % d.get("formula"),
                   why="formula is not built from n-symmetric atoms: the symmetric window would not be a palindrome", node=node)
        # COLA
        if sname in COLA:
            H = harmonics(fp)
            if H is None:
                chk.bad("C14.cola", Wn, "harmonic set of %s" % d.get("formula"),
                        "formula is not a first-degree trigonometric polynomial in cos(2*pi*k*n/size): constant "
                        "overlap-add at hop size/m is no longer implied", node=node)
            else:
                for m in COLA[sname]:
                    bad = sorted(k for k in H if k and k % m == 0)
                    chk.decide(not bad, "C14.cola", Wn, "harmonics %s, hop size/%d" % (sorted(H), m),
                               why="harmonic(s) %s are multiples of %d: shifted copies do not sum to a constant" % (bad, m),
                               node=node)
        if not d.get("distinct", True):
            chk.decide("n" not in fp.symbols(), "C14.prefix", Wn,
                       "non-distinct entry is constant in n (periodic == symmetric)", why="only a constant window may be "
                       "shared between both dictionaries", node=node)
    chk.floor("C14.prefix", nfun, 14, "generated window functions")
    # names registered twice would shadow each other
    allnames = [n for d_, _ in rows for n in d_.get("names", ())]
    dup = sorted({n for n in allnames if allnames.count(n) > 1})
    chk.decide(not dup, "C14.generate", W("window._content_generation_table"), "no alias registered twice",
               why="alias(es) %s appear in two entries: the later strategy steals the name" % dup, node=table_node)
    chk.decide(seen_names >= set(ALIASES), "C14.generate", W("window._content_generation_table"),
               "strategies: %s" % sorted(seen_names), why="documented strategies missing: %s" % sorted(set(ALIASES) - seen_names),
               node=table_node)
