"""C14  Window functions obey their periodic/symmetric, symmetry and overlap contracts."""
import ast
from fractions import Fraction

from ..core import (AnalysisError, FuncTypes, unparse, short, canon, canon_call, base_name, own_nodes,
                    docstring_free, parse_snippet)
from ..ratfun import RF, Evaluator, Inconclusive, opaque, OPAQUE_ARGS, sym_pow

EXPLANATION = (
    "Static analysis of the window generator (lazy_analysis.py). The 7 table entries and the two code templates are "
    "folded exactly as _generate_window_strategies does (sname = names[0], params_def default '') into 14 function "
    "texts, which are parsed; the generator function itself is checked to exec template.format(**entry) for window "
    "then wsymm, to alias non-distinct entries and to cross-link .periodic/.symm. On the reconstructed functions: the "
    "periodic one is [F(n, size) for n in range(size)], the symmetric one returns [1.0] when size == 1 and otherwise "
    "the same F over range(size) with size rebound to size-1 by a simultaneous tuple assignment - hence window.X(s) is "
    "exactly the length-s prefix of wsymm.X(s+1) for every s and every parameter. Each formula F equals the documented "
    "closed form in normal form. Symmetry: F is invariant under n -> size - n (atoms cos(2k*pi*n/size), "
    "sin((2k+1)*pi*n/size), abs(n - size/2) recognised by their arguments; closed under arithmetic). COLA: F is a "
    "first-degree trigonometric polynomial with harmonic set H; hop = size/m sums to a constant iff no non-zero k in H "
    "is a multiple of m (hann, hamming: m = 2, 4; blackman: m = 4; rect). Cross references of both dictionaries. Not "
    "decided: values in [0, 1] in floating point; the bartlett/triangular overlap sums.")

UNDECIDED = ["samples within [0, 1] in floating point", "bartlett / triangular constant overlap-add (piecewise linear argument)"]

LA = "lazy_analysis"

DOC_FORMS = {
    "hann": ".5 * (1 - cos(2 * pi * n / size))",
    "hamming": ".54 - .46 * cos(2 * pi * n / size)",
    "rect": "1.0",
    "bartlett": "1 - 2.0 / size * abs(n - size / 2.0)",
    "triangular": "1 - 2.0 / (size + 2) * abs(n - size / 2.0)",
    "blackman": "(1 - alpha) / 2 - .5 * cos(2 * pi * n / size) + alpha / 2 * cos(4 * pi * n / size)",
    "cos": "sin(pi * n / size) ** alpha",
}
ALIASES = {"hann": ("hann", "hanning"), "hamming": ("hamming",), "rect": ("rect", "dirichlet", "rectangular"),
           "bartlett": ("bartlett",), "triangular": ("triangular", "triangle"), "blackman": ("blackman",), "cos": ("cos",)}
COLA = {"hann": (2, 4), "hamming": (2, 4), "blackman": (4,), "rect": (1, 2, 4)}


def fold_table(node):
    if not isinstance(node, ast.List):
        raise AnalysisError("window._content_generation_table is not a list literal")
    rows = []
    for e in node.elts:
        if not (isinstance(e, ast.Call) and unparse(e.func) == "dict" and not e.args):
            raise AnalysisError("table entry is not dict(keyword=literal, ...): %s" % short(e))
        d = {}
        for k in e.keywords:
            try:
                d[k.arg] = ast.literal_eval(k.value)
            except Exception:
                raise AnalysisError("table entry value for %s is not a literal" % k.arg)
        rows.append((d, e))
    return rows


def symmetric_in_n(e, env):
    """Is expression e invariant under n -> size - n ?  (structural type system)"""
    if isinstance(e, ast.Constant):
        return True
    if isinstance(e, ast.Name):
        return e.id != "n"
    if isinstance(e, ast.UnaryOp):
        return symmetric_in_n(e.operand, env)
    if isinstance(e, ast.BinOp):
        if isinstance(e.op, ast.Pow):
            return symmetric_in_n(e.left, env) and "n" not in {x.id for x in ast.walk(e.right) if isinstance(x, ast.Name)}
        return symmetric_in_n(e.left, env) and symmetric_in_n(e.right, env)
    if isinstance(e, ast.Call) and isinstance(e.func, ast.Name) and len(e.args) == 1:
        try:
            arg = Evaluator(env).ev(e.args[0])
        except Inconclusive:
            return False
        n, size, pi = RF.sym("n"), RF.sym("size"), RF.sym("pi")
        refl = arg.subst({"n": size - n})
        if e.func.id == "cos":
            # cos(A): need A' = +-A + 2*pi*k
            for sgn in (1, -1):
                d = (refl - sgn * arg) / (2 * pi)
                if _is_integer(d):
                    return True
            return False
        if e.func.id == "sin":
            # sin(A') = sin(A) iff A' = A + 2*pi*k or A' = pi - A + 2*pi*k
            if _is_integer((refl - arg) / (2 * pi)):
                return True
            return _is_integer((refl + arg - pi) / (2 * pi))
        if e.func.id == "abs":
            return refl == arg or refl == -arg
        return "n" not in arg.symbols()
    return False


def _is_integer(rf):
    try:
        f = rf.as_fraction()
    except Inconclusive:
        return False
    return f.denominator == 1


def harmonics(rf):
    """Harmonic set of a first-degree trigonometric polynomial in cos(2*pi*k*n/size); None if not of that form."""
    n, size, pi = RF.sym("n"), RF.sym("size"), RF.sym("pi")
    H = {0}
    s = rf
    if set(s.d) != {()}:
        # denominator must not involve n or trig symbols
        for m in s.d:
            for sym, _ in m:
                if sym == "n" or sym.startswith(("cos(", "sin(", "abs(")):
                    return None
    for m in s.n:
        trig = [(sym, e) for sym, e in m if sym.startswith(("cos(", "sin(", "abs(", "pow("))]
        if any(sym == "n" for sym, _ in m):
            return None
        if not trig:
            continue
        if len(trig) != 1 or trig[0][1] != 1 or not trig[0][0].startswith("cos("):
            return None
        fname, args = OPAQUE_ARGS[trig[0][0]]
        k = args[0] * size / (2 * pi * n)
        try:
            kf = k.as_fraction()
        except Inconclusive:
            return None
        if kf.denominator != 1:
            return None
        H.add(abs(int(kf)))
    return H


def run(chk, repo):
    mod = repo.mod(LA)
    W = lambda q: "%s:%s" % (mod.relpath, q)
    table_node = repo.find_assign(LA, "window._content_generation_table")
    rows = fold_table(table_node)
    tp_node = repo.find_assign(LA, "window._code_template")
    ts_node = repo.find_assign(LA, "wsymm._code_template")
    if not (isinstance(tp_node, ast.Constant) and isinstance(ts_node, ast.Constant)):
        raise AnalysisError("window/wsymm._code_template are not string literals")
    tp, ts = tp_node.value, ts_node.value

    # ------------------------------------------------------------- generator
    chk.rule("C14.generate", "_generate_window_strategies: for every table entry, sname = names[0], params_def defaults "
                             "to ''; for sdict in [window, wsymm]: exec(sdict._code_template.format(**entry)) with "
                             "pi/sin/cos/xrange in scope and registered under all names; non-distinct entries alias "
                             "wsymm[sname] = window[sname]; .periodic/.symm cross-links set on both strategies")
    gen = repo.find(LA, "_generate_window_strategies")
    gtxt = [unparse(s) for s in docstring_free(gen.body)]
    loop = [s for s in docstring_free(gen.body) if isinstance(s, ast.For)]
    chk.require(len(loop) == 1 and unparse(loop[0].iter) == "window._content_generation_table",
                "_generate_window_strategies: loop over the table not found")
    lb = [unparse(s) for s in loop[0].body]
    ok = lb[0] == "names = wnd_dict['names']" and lb[1] == "sname = wnd_dict['sname'] = names[0]" \
        and lb[2] == "wnd_dict.setdefault('params_def', '')"
    chk.decide(ok, "C14.generate", W("_generate_window_strategies"), " ; ".join(lb[:3]),
               why="strategy name must be the first alias and params_def default to ''", node=loop[0])
    inner = [s for s in loop[0].body if isinstance(s, ast.For)]
    ok = len(inner) == 1 and unparse(inner[0].iter) == "[window, wsymm]"
    if ok:
        it = [unparse(s) for s in inner[0].body]
        ok = any(t == "exec(sdict._code_template.format(**wnd_dict), ns, ns)" for t in it) \
            and any(t.startswith("ns = dict(pi=pi, sin=sin, cos=cos, xrange=xrange") for t in it) \
            and any("sdict.strategy(*names)" in t for t in it) \
            and any("reduce(lambda func, dec: dec(func), decorators, ns[sname])" in t for t in it) \
            and it[-1] == "if not wnd_dict.get('distinct', True):\n    wsymm[sname] = window[sname]\n    break"
    chk.decide(ok, "C14.generate", W("_generate_window_strategies"), "periodic then symmetric template exec'd and registered; "
               "non-distinct entries alias", why="generation loop changed: %s" % (lb[3][:200] if len(lb) > 3 else "?"), node=loop[0])
    ok = lb[-2:] == ["wsymm[sname].periodic = window[sname].periodic = window[sname]",
                     "wsymm[sname].symm = window[sname].symm = wsymm[sname]"]
    chk.decide(ok, "C14.generate", W("_generate_window_strategies"), " ; ".join(lb[-2:]),
               why=".periodic of both must be the window strategy and .symm the wsymm strategy", node=loop[0])
    imports = {n.names[0].name for n in mod.tree.body if isinstance(n, ast.ImportFrom) and n.module == "math" for _ in [0]}
    mi = [n for n in mod.tree.body if isinstance(n, ast.ImportFrom) and n.module == "math"]
    names = {a.name for n in mi for a in n.names}
    chk.decide({"sin", "cos", "pi"} <= names, "C14.generate", W("<imports>"), "sin, cos, pi come from math",
               why="generated code must use the scalar math functions", node=mod.tree)
    called = [s for s in mod.tree.body if isinstance(s, ast.Expr) and unparse(s.value) == "_generate_window_strategies()"]
    chk.decide(len(called) == 1, "C14.generate", W("<module>"), "_generate_window_strategies() is called once at import",
               why="strategies would not exist / be generated twice", node=mod.tree)
    # dictionary-level links
    links = {}
    for s in mod.tree.body:
        if isinstance(s, ast.Assign) and len(s.targets) == 2 and all(isinstance(t, ast.Attribute) for t in s.targets):
            for t in s.targets:
                links[unparse(t)] = unparse(s.value)
    ok = links.get("window.symm") == "wsymm" and links.get("wsymm.symm") == "wsymm" \
        and links.get("window.periodic") == "window" and links.get("wsymm.periodic") == "window"
    chk.decide(ok, "C14.generate", W("<module>"), "window.symm is wsymm.symm is wsymm; window.periodic is wsymm.periodic is window",
               why="dictionary-level cross references wrong: %s" % links, node=mod.tree)

    # --------------------------------------------------------- reconstruct 14
    chk.rule("C14.prefix", "periodic = [F for n in range(size)]; symmetric = [1.0] if size == 1 else the same F over "
                           "range(size) with size rebound to size - 1 in one tuple assignment: window.X(s) is the prefix "
                           "of wsymm.X(s+1)")
    chk.rule("C14.formula", "table formula equals the documented closed form (normal form)")
    chk.rule("C14.symmetry", "F(n, size) is invariant under n -> size - n (so wsymm.X(size) is a palindrome)")
    chk.rule("C14.cola", "F is a first-degree trigonometric polynomial whose non-zero harmonics are not multiples of m "
                         "for the documented hops size/m")
    nfun = 0
    seen_names = set()
    for d, node in rows:
        names_ = d.get("names")
        chk.require(isinstance(names_, tuple) and names_, "table entry without names")
        sname = names_[0]
        seen_names.add(sname)
        fmt = dict(d)
        fmt["sname"] = sname
        fmt.setdefault("params_def", "")
        if sname in ALIASES:
            chk.decide(tuple(names_) == ALIASES.get(sname), "C14.generate", W("window[%s]" % sname),
                       "names %s" % (names_,), why="documented names are %s" % (ALIASES.get(sname),), node=node)
        else:
            chk.note("C14.generate", W("window[%s]" % sname), "strategy not on record: the generic rules (prefix, "
                     "symmetry) are applied, no closed form is compared")
        try:
            ptxt = tp.format(**fmt)
            stxt = ts.format(**fmt)
            pf = [n for n in parse_snippet(ptxt).body if isinstance(n, ast.FunctionDef)][0]
            sf = [n for n in parse_snippet(stxt).body if isinstance(n, ast.FunctionDef)][0]
        except (KeyError, IndexError, SyntaxError) as ex:
            chk.bad("C14.prefix", W("window[%s]" % sname), "generated text", "template instantiation does not yield a "
                    "function: %s" % ex, node=node)
            continue
        nfun += 2
        Wn = W("window/wsymm[%s]" % sname)
        # periodic shape
        pb = docstring_free(pf.body)
        okp = len(pb) == 1 and isinstance(pb[0], ast.Return) and isinstance(pb[0].value, ast.ListComp) \
            and unparse(pb[0].value.generators[0].iter) in ("xrange(size)", "range(size)") \
            and unparse(pb[0].value.generators[0].target) == "n" and not pb[0].value.generators[0].ifs
        sb = docstring_free(sf.body)
        oks = len(sb) == 3 and unparse(sb[0]) == "if size == 1:\n    return [1.0]" \
            and unparse(sb[1]) in ("size, indexes = (size - 1, xrange(size))", "size, indexes = (size - 1, range(size))") \
            and isinstance(sb[2], ast.Return) and isinstance(sb[2].value, ast.ListComp) \
            and unparse(sb[2].value.generators[0].iter) == "indexes" and unparse(sb[2].value.generators[0].target) == "n" \
            and not sb[2].value.generators[0].ifs
        same_sig = [a.arg for a in pf.args.args] == [a.arg for a in sf.args.args] and \
            [unparse(x) for x in pf.args.defaults] == [unparse(x) for x in sf.args.defaults] and pf.name == sf.name == sname
        okf = False
        if okp and oks:
            try:
                fp = Evaluator().ev(pb[0].value.elt)
                fs = Evaluator().ev(sb[2].value.elt)
                okf = fp == fs
            except Inconclusive as ex:
                raise AnalysisError("window formula of %s not interpretable: %s" % (sname, ex))
        chk.decide(okp and oks and okf and same_sig, "C14.prefix", Wn,
                   "periodic: %s | symmetric: %s" % (short(pb[0], 70) if pb else "?", " ; ".join(short(s, 50) for s in sb[1:])),
                   why="shape broken (periodic ok=%s, symmetric ok=%s, same formula=%s, same signature=%s): the length-s "
                       "periodic window is no longer the prefix of the length-(s+1) symmetric one" % (okp, oks, okf, same_sig),
                   node=node)
        if not (okp and oks):
            continue
        # documented formula
        try:
            want = Evaluator().ev(ast.parse(DOC_FORMS[sname], mode="eval").body) if sname in DOC_FORMS else None
        except Inconclusive:
            want = None
        if want is None:
            chk.note("C14.formula", Wn, "no documented closed form on record for '%s'" % sname)
        else:
            chk.decide(fp == want, "C14.formula", Wn, "F = %s" % d.get("formula"),
                       why="documented closed form is %s" % DOC_FORMS[sname], node=node)
        defaults = {a.arg: unparse(v) for a, v in zip(pf.args.args[-len(pf.args.defaults):], pf.args.defaults)} if pf.args.defaults else {}
        wantd = {"blackman": {"alpha": "0.16"}, "cos": {"alpha": "1"}}.get(sname, {})
        if sname in ALIASES:
            chk.decide(defaults == wantd, "C14.formula", Wn, "parameters %s" % (defaults or "none"),
                       why="documented defaults are %s" % wantd, node=node)
        # symmetry
        chk.decide(symmetric_in_n(pb[0].value.elt, {}), "C14.symmetry", Wn, "F(size - n) == F(n) for F = %s" % d.get("formula"),
                   why="formula is not built from n-symmetric atoms: the symmetric window would not be a palindrome", node=node)
        # COLA
        if sname in COLA:
            H = harmonics(fp)
            if H is None:
                chk.bad("C14.cola", Wn, "harmonic set of %s" % d.get("formula"),
                        "formula is not a first-degree trigonometric polynomial in cos(2*pi*k*n/size): constant "
                        "overlap-add at hop size/m is no longer implied", node=node)
            else:
                for m in COLA[sname]:
                    bad = sorted(k for k in H if k and k % m == 0)
                    chk.decide(not bad, "C14.cola", Wn, "harmonics %s, hop size/%d" % (sorted(H), m),
                               why="harmonic(s) %s are multiples of %d: shifted copies do not sum to a constant" % (bad, m),
                               node=node)
        if not d.get("distinct", True):
            chk.decide("n" not in fp.symbols(), "C14.prefix", Wn,
                       "non-distinct entry is constant in n (periodic == symmetric)", why="only a constant window may be "
                       "shared between both dictionaries", node=node)
    chk.floor("C14.prefix", nfun, 14, "generated window functions")
    # names registered twice would shadow each other
    allnames = [n for d_, _ in rows for n in d_.get("names", ())]
    dup = sorted({n for n in allnames if allnames.count(n) > 1})
    chk.decide(not dup, "C14.generate", W("window._content_generation_table"), "no alias registered twice",
               why="alias(es) %s appear in two entries: the later strategy steals the name" % dup, node=table_node)
    chk.decide(seen_names >= set(ALIASES), "C14.generate", W("window._content_generation_table"),
               "strategies: %s" % sorted(seen_names), why="documented strategies missing: %s" % sorted(set(ALIASES) - seen_names),
               node=table_node)
