"""Core of the static checker: repository model (E0), reporting, evidence.

Nothing here imports or executes repository code.  Sources are read and parsed
with ``ast`` on every run.
"""
import ast
import hashlib
import json
import os
import re
import sys
import time
import warnings

sys.setrecursionlimit(max(sys.getrecursionlimit(), 20000))

VERIF = os.path.dirname(os.path.dirname(os.path.abspath(__file__)))
PKG = "audiolazy"


class AnalysisError(Exception):
    """The analysis cannot decide (anchor vanished, floor not met, construct
    outside the analysable fragment).  Exit status 2, never a VIOLATION."""


# --------------------------------------------------------------------------
# E0  repository model
# --------------------------------------------------------------------------
class Module(object):
    def __init__(self, name, path):
        self.name = name
        self.path = path
        with open(path, "rb") as f:
            raw = f.read()
        self.digest = hashlib.sha256(raw).hexdigest()[:16]
        self.src = raw.decode("utf-8")
        with warnings.catch_warnings():
            warnings.simplefilter("ignore")
            self.tree = ast.parse(self.src, filename=path)
        strip_annotations(self.tree)
        set_parents(self.tree)
        self.relpath = "%s/%s.py" % (PKG, name)


def strip_annotations(tree):
    """Type annotations say nothing about behaviour: ``x: T = E`` is read as ``x = E``, a bare declaration ``x: T``
    as nothing, parameter and return annotations are dropped (in place).  Returns the number of nodes changed."""
    count = 0
    for node in ast.walk(tree):
        for fld in ("body", "orelse", "finalbody"):
            blk = getattr(node, fld, None)
            if not (isinstance(blk, list) and blk and isinstance(blk[0], ast.stmt)):
                continue
            k = 0
            while k < len(blk):
                st = blk[k]
                if isinstance(st, ast.AnnAssign):
                    count += 1
                    if st.value is not None:
                        blk[k] = ast.copy_location(ast.Assign(targets=[st.target], value=st.value), st)
                    elif len(blk) > 1:
                        del blk[k]
                        continue
                    else:
                        blk[k] = ast.copy_location(ast.Pass(), st)
                k += 1
        if isinstance(node, (ast.FunctionDef, ast.AsyncFunctionDef)):
            if node.returns is not None:
                node.returns = None
                count += 1
            a = node.args
            for arg in a.args + a.kwonlyargs + getattr(a, "posonlyargs", []) + [x for x in (a.vararg, a.kwarg) if x is not None]:
                if arg.annotation is not None:
                    arg.annotation = None
                    count += 1
        elif isinstance(node, ast.Lambda):
            pass
    # logging calls (logging.debug(..), <module-level logger>.info(..)) are diagnostics, not behaviour
    loggers = {"logging"} if any(isinstance(st, ast.Import) and any(al.name == "logging" and al.asname is None for al in st.names)
                                 for st in tree.body) else set()
    for st in tree.body:
        if isinstance(st, ast.Assign) and len(st.targets) == 1 and isinstance(st.targets[0], ast.Name) \
                and isinstance(st.value, ast.Call) and ast.unparse(st.value.func) in ("logging.getLogger", "getLogger"):
            loggers.add(st.targets[0].id)
    if loggers:
        LEVELS = ("debug", "info", "warning", "error", "exception", "critical", "log")
        for node in ast.walk(tree):
            for fld in ("body", "orelse", "finalbody"):
                blk = getattr(node, fld, None)
                if not (isinstance(blk, list) and blk and isinstance(blk[0], ast.stmt)):
                    continue
                k = 0
                while k < len(blk):
                    st = blk[k]
                    if isinstance(st, ast.Expr) and isinstance(st.value, ast.Call) and isinstance(st.value.func, ast.Attribute) \
                            and st.value.func.attr in LEVELS and isinstance(st.value.func.value, ast.Name) \
                            and st.value.func.value.id in loggers and not any(
                                isinstance(x, (ast.Call, ast.Yield, ast.YieldFrom, ast.Await, ast.NamedExpr))
                                for a in list(st.value.args) + [kw.value for kw in st.value.keywords] for x in ast.walk(a)):
                        count += 1
                        if len(blk) > 1:
                            del blk[k]
                            continue
                        blk[k] = ast.copy_location(ast.Pass(), st)
                    k += 1
    count += desugar_closing(tree)
    if count:
        ast.fix_missing_locations(tree)
    return count


def desugar_closing(tree):
    """``with contextlib.closing(E) as v: BODY`` is ``v = E; try: BODY finally: v.close()`` (closing.__exit__ calls
    thing.close() and suppresses nothing) - read so when BODY never rebinds v and the name is contextlib's."""
    names = set()
    for st in tree.body:
        if isinstance(st, ast.Import):
            names |= {(al.asname or al.name) + ".closing" for al in st.names if al.name == "contextlib"}
        elif isinstance(st, ast.ImportFrom) and st.module == "contextlib" and not st.level:
            names |= {al.asname or al.name for al in st.names if al.name == "closing"}
    if not names:
        return 0
    count = 0
    for node in ast.walk(tree):
        for fld in ("body", "orelse", "finalbody"):
            blk = getattr(node, fld, None)
            if not (isinstance(blk, list) and blk and isinstance(blk[0], ast.stmt)):
                continue
            k = 0
            while k < len(blk):
                st = blk[k]
                k += 1
                if not (isinstance(st, ast.With) and len(st.items) == 1):
                    continue
                it = st.items[0]
                ce = it.context_expr
                if not (isinstance(ce, ast.Call) and ast.unparse(ce.func) in names and len(ce.args) == 1 and not ce.keywords
                        and not isinstance(ce.args[0], ast.Starred) and isinstance(it.optional_vars, ast.Name)):
                    continue
                v = it.optional_vars.id
                rebinds = any(isinstance(x, ast.Name) and x.id == v and isinstance(x.ctx, (ast.Store, ast.Del))
                              for b_ in st.body for x in ast.walk(b_))
                scoped = any(isinstance(x, (ast.Global, ast.Nonlocal)) and v in x.names for x in ast.walk(tree))
                if rebinds or scoped:
                    continue
                asg = ast.copy_location(ast.Assign(targets=[ast.Name(id=v, ctx=ast.Store())], value=ce.args[0]), st)
                close = ast.Expr(value=ast.Call(func=ast.Attribute(value=ast.Name(id=v, ctx=ast.Load()), attr="close",
                                                                   ctx=ast.Load()), args=[], keywords=[]))
                tr = ast.copy_location(ast.Try(body=st.body, handlers=[], orelse=[], finalbody=[close]), st)
                blk[k - 1:k] = [asg, tr]
                k += 1
                count += 1
    return count


def set_parents(tree):
    for node in ast.walk(tree):
        for ch in ast.iter_child_nodes(node):
            ch._parent = node
    if not hasattr(tree, "_parent"):
        tree._parent = None


def parse_snippet(src, filename="<snippet>"):
    with warnings.catch_warnings():
        warnings.simplefilter("ignore")
        tree = ast.parse(src, filename=filename)
    set_parents(tree)
    return tree


def unparse(node):
    if node is None:
        return ""
    if isinstance(node, list):
        return "; ".join(unparse(n) for n in node)
    try:
        return ast.unparse(node)
    except Exception:  # pragma: no cover
        return ast.dump(node)


def short(node, n=110):
    s = " ".join(unparse(node).split())
    return s if len(s) <= n else s[: n - 3] + "..."


FuncTypes = (ast.FunctionDef, ast.AsyncFunctionDef)


def docstring_free(body):
    """Statements of a body without the leading docstring."""
    if body and isinstance(body[0], ast.Expr) and isinstance(body[0].value, ast.Constant) \
            and isinstance(body[0].value.value, str):
        return body[1:]
    return list(body)


def memo_dict_sites(fn):
    """[(if node, cache name, key expr, names the guarded computation reads, enclosing function)] for
    ``if K not in C: ... C[K] = V`` (or the ``if K in C: .. else: ..`` polarity), C a plain name"""
    out = []
    parents = {}
    for n in ast.walk(fn):
        for ch in ast.iter_child_nodes(n):
            parents[ch] = n
    for n in ast.walk(fn):
        if not (isinstance(n, ast.If) and isinstance(n.test, ast.Compare) and len(n.test.ops) == 1
                and isinstance(n.test.ops[0], (ast.In, ast.NotIn)) and isinstance(n.test.comparators[0], ast.Name)):
            continue
        cache = n.test.comparators[0].id
        arm = n.body if isinstance(n.test.ops[0], ast.NotIn) else n.orelse
        stores = [st for st in arm if isinstance(st, ast.Assign) and len(st.targets) == 1
                  and isinstance(st.targets[0], ast.Subscript) and isinstance(st.targets[0].value, ast.Name)
                  and st.targets[0].value.id == cache and ast.unparse(st.targets[0].slice) == ast.unparse(n.test.left)]
        if len(stores) != 1 or stores[0] is not arm[-1] and not isinstance(arm[-1], ast.Return):
            continue
        encl = n
        while encl in parents and not isinstance(encl, FuncTypes):
            encl = parents[encl]
        if not isinstance(encl, FuncTypes):
            continue
        # the cache itself lives outside the function that tests it (a closure / module variable)
        if any(isinstance(x, ast.Name) and x.id == cache and isinstance(x.ctx, ast.Store) for x in own_nodes(encl)):
            continue
        reads = {x.id for st in arm for x in ast.walk(st) if isinstance(x, ast.Name) and isinstance(x.ctx, ast.Load)}
        out.append((n, cache, n.test.left, reads - {cache}, encl))
    return out


def accumulate_guards(fn):
    """[(if node, key tested, [(store statement, key stored)])] for every ``if K in D: D[K2] += v  else: D[K3] = v``
    (either polarity): accumulating into a mapping tests the very key it then writes"""
    out = []
    for n in ast.walk(fn):
        if not (isinstance(n, ast.If) and isinstance(n.test, ast.Compare) and len(n.test.ops) == 1
                and isinstance(n.test.ops[0], (ast.In, ast.NotIn)) and isinstance(n.test.comparators[0], ast.Name)):
            continue
        d = n.test.comparators[0].id
        stores = []
        for st in list(n.body) + list(n.orelse):
            tg = st.targets[0] if isinstance(st, ast.Assign) and len(st.targets) == 1 else (
                st.target if isinstance(st, ast.AugAssign) else None)
            if isinstance(tg, ast.Subscript) and isinstance(tg.value, ast.Name) and tg.value.id == d:
                stores.append((st, tg.slice))
        if len(stores) >= 2 and any(isinstance(st, ast.AugAssign) for st, _ in stores):
            out.append((n, n.test.left, stores))
    return out


def own_nodes(func):
    """Nodes belonging to the frame of ``func`` (not nested defs/lambdas/classes;
    generator-expression bodies are included - callers that care use frames)."""
    stack = list(func.body) if hasattr(func, "body") and isinstance(func.body, list) else [func.body]
    stack = [n for n in stack if not isinstance(n, FuncTypes + (ast.Lambda, ast.ClassDef))]
    while stack:
        n = stack.pop()
        yield n
        for ch in ast.iter_child_nodes(n):
            if isinstance(ch, FuncTypes + (ast.Lambda, ast.ClassDef)):
                continue
            stack.append(ch)


def is_generator_function(func):
    for n in own_nodes(func):
        if isinstance(n, (ast.Yield, ast.YieldFrom)):
            # yields inside a generator expression cannot occur in py3.8+
            return True
    return False


def call_name(node):
    """Dotted name of a call's callee, or None."""
    if isinstance(node, ast.Call):
        return dotted(node.func)
    return None


def dotted(node):
    if isinstance(node, ast.Name):
        return node.id
    if isinstance(node, ast.Attribute):
        base = dotted(node.value)
        if base is not None:
            return base + "." + node.attr
    return None


class Strategy(object):
    def __init__(self, module, dictname, names, node, kind):
        self.module = module
        self.dictname = dictname
        self.names = names
        self.node = node          # FunctionDef, or expression for inline registration
        self.kind = kind          # "def" | "inline" | "setitem"

    @property
    def where(self):
        return "%s:%s[%s]" % (self.module.relpath, self.dictname, self.names[0])


# names imported from lazy_compat fold to their Python-3 meaning
COMPAT = {"xmap": "map", "xzip": "zip", "xfilter": "filter", "xrange": "range",
          "xzip_longest": "zip_longest", "iteritems": "iteritems", "itervalues": "itervalues"}


class Repo(object):
    def __init__(self, root="/repo"):
        self.root = root
        self.pkgdir = os.path.join(root, PKG)
        if not os.path.isdir(self.pkgdir):
            raise AnalysisError("package directory %s not found" % self.pkgdir)
        self.modules = {}
        for fn in sorted(os.listdir(self.pkgdir)):
            if fn.endswith(".py") and (fn.startswith("lazy_") or fn in ("_internals.py", "__init__.py")):
                name = fn[:-3]
                try:
                    self.modules[name] = Module(name, os.path.join(self.pkgdir, fn))
                except SyntaxError as ex:
                    raise AnalysisError("cannot parse %s: %s" % (fn, ex))
        self._strategies = None
        self.consulted = set()
        self.renamed = {}
        self.adopted = {}
        self.inlined = {}
        self.segments = {}
        self.simplified = {}
        self.ref_trees = {}
        self._alpha_normalise()
        # the view imports what it names (adoption may have brought in names of the confirmed module: xzip ...)
        if self.ref_trees:
            from . import aliases
            for name_, m_ in self.modules.items():
                if name_ in self.ref_trees and ast.dump(m_.tree) != ast.dump(self.ref_trees[name_]) \
                        and aliases.complete_imports(m_.tree, self.ref_trees[name_]):
                    if hasattr(m_, "_imports"):
                        del m_._imports
                    ast.fix_missing_locations(m_.tree)
                    set_parents(m_.tree)

    def _alpha_normalise(self):
        """Map renamed local names back to the names of the reference snapshot (see sa/alpha.py)."""
        if os.environ.get("VERIF_NO_ALPHA"):
            return
        from . import alpha, equiv
        refdir = os.path.join(VERIF, "reference", PKG)
        ref = alpha.load_reference(refdir)
        self.ref_trees = ref
        # The normalised view only depends on the sources read and on the engine: it is cached by content digest (an
        # optimisation for the self-test / benign corpus, which run 20 checks on one tree; a miss recomputes).
        cache_file = None
        changed = [n for n, m in self.modules.items() if n in ref and ast.dump(m.tree) != ast.dump(ref[n])]
        if changed and not os.environ.get("VERIF_NO_CACHE"):
            try:
                import pickle
                h = hashlib.sha256()
                for n in sorted(self.modules):
                    h.update(n.encode())
                    h.update(open(self.modules[n].path, "rb").read())
                for fn_ in sorted(os.listdir(refdir)):
                    if fn_.endswith(".py"):
                        h.update(open(os.path.join(refdir, fn_), "rb").read())
                for eng in ("core.py", "alpha.py", "equiv.py", "webs.py", "inline.py", "ratfun.py", "aliases.py"):
                    h.update(open(os.path.join(VERIF, "sa", eng), "rb").read())
                cdir = os.environ.get("VERIF_CACHE", "/var/tmp/verif-cache")
                os.makedirs(cdir, exist_ok=True)
                cache_file = os.path.join(cdir, h.hexdigest()[:32] + ".pickle")
                if os.path.exists(cache_file):
                    with open(cache_file, "rb") as fh:
                        data = pickle.load(fh)
                    for n, t in data["trees"].items():
                        self.modules[n].tree = t
                    self.inlined, self.adopted, self.renamed, self.segments = data["meta"]
                    return
            except Exception:
                cache_file = None
        self._normalise(ref, alpha, equiv)
        if cache_file is not None:
            try:
                import pickle
                tmp = cache_file + ".%d" % os.getpid()
                with open(tmp, "wb") as fh:
                    pickle.dump({"trees": {n: self.modules[n].tree for n in changed},
                                 "meta": (self.inlined, self.adopted, self.renamed, self.segments)}, fh, protocol=4)
                os.replace(tmp, cache_file)
            except Exception:
                pass

    def _normalise(self, ref, alpha, equiv):
        refdir = os.path.join(VERIF, "reference", PKG)
        hier_cur = equiv.class_hierarchy([m.tree for m in self.modules.values()])
        hier_ref = equiv.class_hierarchy(list(ref.values()))
        from . import inline
        for name, mod in self.modules.items():
            if name in ref and not os.environ.get("VERIF_NO_INLINE"):
                if ast.dump(mod.tree) == ast.dump(ref[name]):
                    continue
                done, removed = inline.inline_new_helpers(mod.tree, ref[name], hier_cur)
                if done:
                    self.inlined[name] = {"inlined": done, "dropped": removed}
                    ast.fix_missing_locations(mod.tree)
                    set_parents(mod.tree)
        for name, mod in self.modules.items():
            if name in ref and not os.environ.get("VERIF_NO_EQUIV"):
                got = equiv.adopt_reference(mod.tree, ref[name], hier_cur, hier_ref)
                if got:
                    self.adopted[name] = got
                    set_parents(mod.tree)
        # E17: stable local aliases (bound methods, attributes bound once in __init__, constants) written back in the
        # functions that differ from their confirmed namesake
        e17_touched = set()
        if not os.environ.get("VERIF_NO_ALIASES"):
            from . import aliases
            sites = aliases.rebinding_sites([m.tree for m in self.modules.values()])
            meths = aliases.method_names([m.tree for m in self.modules.values()])

            def related(cls, _h=hier_cur):
                # the class, its ancestors and its descendants (not its siblings)
                return {cls} | set(_h.get(cls, ())) | {c_ for c_, bases in _h.items() if cls in bases}
            for name, mod in self.modules.items():
                if name not in ref or ast.dump(mod.tree) == ast.dump(ref[name]):
                    continue
                if aliases.compat_spellings(mod.tree, ref[name]):
                    e17_touched.add(name)
                    set_parents(mod.tree)
                refu = {k: n for k, n, _, _ in equiv.units(ref[name])}
                differ = [n for k, n, _, _ in equiv.units(mod.tree)
                          if isinstance(n, FuncTypes) and (k not in refu or ast.dump(n) != ast.dump(refu[k]))]
                if differ:
                    # per function name: the bindings its confirmed namesake writes too (same statement, same local
                    # name, or a local holding the same thing whatever it is called here) and its nested defs
                    keep = {}
                    for f_ in [n_ for n_ in ast.walk(ref[name]) if isinstance(n_, FuncTypes)]:
                        k_ = keep.setdefault(f_.name, set())
                        for n_ in ast.walk(f_):
                            if isinstance(n_, ast.Assign):
                                k_.add(ast.unparse(n_))
                                if len(n_.targets) == 1 and isinstance(n_.targets[0], ast.Name):
                                    k_.add("name " + n_.targets[0].id)
                                    if isinstance(n_.value, (ast.Attribute, ast.Lambda)):
                                        k_.add("value " + ast.unparse(n_.value))
                            elif isinstance(n_, FuncTypes) and n_ is not f_:
                                k_.add("def " + n_.name)
                    got = aliases.write_back(mod.tree, related, sites, only=differ, keep=keep, methods=meths)
                    if got:
                        e17_touched.add(name)
                        self.simplified.setdefault(name, []).extend("alias " + g for g in got)
                        ast.fix_missing_locations(mod.tree)
                        set_parents(mod.tree)
        # ... and what E17 rewrote gets a second chance of being proved equal to its confirmed namesake
        for name, mod in self.modules.items():
            if name in ref and not os.environ.get("VERIF_NO_EQUIV") and name in e17_touched:
                got = equiv.adopt_reference(mod.tree, ref[name], hier_cur, hier_ref)
                if got:
                    self.adopted.setdefault(name, [])
                    self.adopted[name] = list(self.adopted[name]) + [g for g in got if g not in self.adopted[name]]
                    set_parents(mod.tree)
        for name, mod in self.modules.items():
            if name in ref and not os.environ.get("VERIF_NO_EQUIV"):
                if ast.dump(mod.tree) == ast.dump(ref[name]):
                    continue
                got = equiv.simplify_views(mod.tree, ref[name])
                if got:
                    self.simplified.setdefault(name, []).extend(got)
                    ast.fix_missing_locations(mod.tree)
                    set_parents(mod.tree)
        for name, mod in self.modules.items():
            if name in ref:
                applied = alpha.normalise_module(mod.tree, ref[name])
                if applied:
                    self.renamed[name] = applied
                    set_parents(mod.tree)
        for name, mod in self.modules.items():
            if name in ref and not os.environ.get("VERIF_NO_EQUIV") and not os.environ.get("VERIF_NO_SEGMENTS"):
                if ast.dump(mod.tree) == ast.dump(ref[name]):
                    continue
                got = equiv.adopt_segments(mod.tree, ref[name], hier_cur, hier_ref)
                if got:
                    self.segments[name] = got
                ast.fix_missing_locations(mod.tree)
                set_parents(mod.tree)

    # -- lookup ------------------------------------------------------------
    def mod(self, name):
        if name not in self.modules:
            raise AnalysisError("anchor vanished: module %s" % name)
        self.consulted.add(name)
        return self.modules[name]

    def find(self, modname, qual, required=True):
        """Find a class/function by dotted qualified name, e.g.
        ``Stream.skip.skipper``.  Returns the *last* definition with that name
        at each level (Python semantics of rebinding)."""
        mod = self.mod(modname)
        node = mod.tree
        for part in qual.split("."):
            found = None
            body = node.body if not isinstance(node, ast.Lambda) else []
            for st in iter_defs(body):
                if st.name == part:
                    found = st
            if found is None:
                if required:
                    raise AnalysisError("anchor vanished: %s:%s (at '%s')" % (mod.relpath, qual, part))
                return None
            node = found
        node._qual = qual
        node._module = mod
        return node

    def callees(self, modname, fn, depth=2):
        """[fn] + the private module-level functions (and private methods through ``self.``) it calls, transitively:
        where a rule has to look when the code it is about was moved into a helper."""
        mod = self.mod(modname)
        top = {s.name: s for s in mod.tree.body if isinstance(s, FuncTypes)}
        meths = {}
        for c in mod.tree.body:
            if isinstance(c, ast.ClassDef):
                for m in c.body:
                    if isinstance(m, FuncTypes):
                        meths.setdefault(m.name, m)
        out, frontier = [fn], [fn]
        for _ in range(depth):
            nxt = []
            for f in frontier:
                for n in ast.walk(f):
                    if isinstance(n, ast.Call):
                        g = None
                        if isinstance(n.func, ast.Name) and n.func.id.startswith("_") and n.func.id in top:
                            g = top[n.func.id]
                        elif isinstance(n.func, ast.Attribute) and isinstance(n.func.value, ast.Name) \
                                and n.func.value.id == "self" and n.func.attr.startswith("_") \
                                and not n.func.attr.startswith("__") and n.func.attr in meths:
                            g = meths[n.func.attr]
                        if g is not None and all(g is not x for x in out):
                            out.append(g)
                            nxt.append(g)
            frontier = nxt
        return out

    def ref_assign(self, modname, target):
        """value node of the last module-level assignment to ``target`` in the confirmed snapshot, or None"""
        t = self.ref_trees.get(modname)
        res = None
        if t is not None:
            for st in t.body:
                if isinstance(st, ast.Assign) and any(ast.unparse(x) == target for x in st.targets):
                    res = st.value
        return res

    def find_assign(self, modname, target, scope=None, required=True):
        """Last module-level (or class-level when scope given) assignment whose
        target unparse equals ``target``.  Returns the value node."""
        mod = self.mod(modname)
        body = mod.tree.body if scope is None else self.find(modname, scope).body
        res = None
        for st in body:
            if isinstance(st, ast.Assign):
                for t in st.targets:
                    if unparse(t) == target:
                        res = st.value
                    elif isinstance(t, ast.Tuple):
                        pass
            elif isinstance(st, ast.AnnAssign) and unparse(st.target) == target:
                res = st.value
        if res is None and required:
            raise AnalysisError("anchor vanished: assignment to %s in %s" % (target, mod.relpath))
        return res

    # -- strategies --------------------------------------------------------
    @property
    def strategies(self):
        if self._strategies is None:
            self._strategies = []
            for mod in self.modules.values():
                self._collect_strategies(mod)
        return self._strategies

    def _collect_strategies(self, mod):
        dicts = set()
        for st in ast.walk(mod.tree):
            if isinstance(st, ast.Assign) and isinstance(st.value, ast.Call) \
                    and call_name(st.value) == "StrategyDict":
                for t in st.targets:
                    for n in ([t] if isinstance(t, ast.Name) else []):
                        dicts.add(n.id)
        mod.strategy_dicts = dicts
        for node in ast.walk(mod.tree):
            if isinstance(node, FuncTypes):
                for d in node.decorator_list:
                    if isinstance(d, ast.Call) and isinstance(d.func, ast.Attribute) \
                            and d.func.attr == "strategy" and isinstance(d.func.value, ast.Name):
                        names = tuple(a.value for a in d.args if isinstance(a, ast.Constant))
                        s = Strategy(mod, d.func.value.id, names, node, "def")
                        node._strategy = s
                        node._module = mod
                        node._qual = "%s[%s]" % (d.func.value.id, names[0] if names else "?")
                        self._strategies.append(s)
            elif isinstance(node, ast.Call) and isinstance(node.func, ast.Call) \
                    and isinstance(node.func.func, ast.Attribute) and node.func.func.attr == "strategy" \
                    and isinstance(node.func.func.value, ast.Name) and node.args:
                # X.strategy("a", "b")(expr)
                inner = node.func
                names = tuple(a.value for a in inner.args if isinstance(a, ast.Constant))
                self._strategies.append(Strategy(mod, inner.func.value.id, names, node.args[0], "inline"))
            elif isinstance(node, ast.Assign) and len(node.targets) == 1 \
                    and isinstance(node.targets[0], ast.Subscript) \
                    and isinstance(node.targets[0].value, ast.Name) \
                    and node.targets[0].value.id in dicts \
                    and isinstance(node.targets[0].slice, ast.Constant):
                self._strategies.append(Strategy(mod, node.targets[0].value.id,
                                                 (node.targets[0].slice.value,), node.value, "setitem"))

    def strategy(self, modname, dictname, name, required=True):
        mod = self.mod(modname)
        res = None
        for s in self.strategies:
            if s.module is mod and s.dictname == dictname and name in s.names:
                res = s
        if res is None:
            if required:
                raise AnalysisError("anchor vanished: strategy %s.%s in %s" % (dictname, name, mod.relpath))
            return None
        if res.kind == "def":
            res.node._qual = "%s[%s]" % (dictname, res.names[0])
            res.node._module = mod
        return res

    def strategies_of(self, modname, dictname):
        mod = self.mod(modname)
        return [s for s in self.strategies if s.module is mod and s.dictname == dictname]

    # -- misc --------------------------------------------------------------
    def digest(self, names=None):
        h = hashlib.sha256()
        for n in sorted(names or self.consulted):
            if n in self.modules:
                h.update(n.encode())
                h.update(self.modules[n].digest.encode())
        return h.hexdigest()[:16]


def iter_defs(body):
    """Definitions (functions/classes) in a statement list, also those nested
    directly in if/try/with/for blocks at the same scope."""
    for st in body:
        if isinstance(st, FuncTypes + (ast.ClassDef,)):
            yield st
        elif isinstance(st, (ast.If, ast.For, ast.While, ast.With, ast.Try)):
            for fld in ("body", "orelse", "finalbody"):
                for x in iter_defs(getattr(st, fld, []) or []):
                    yield x
            for h in getattr(st, "handlers", []) or []:
                for x in iter_defs(h.body):
                    yield x


def where(node, mod=None, qual=None):
    mod = mod or getattr(node, "_module", None)
    q = qual or getattr(node, "_qual", None)
    rel = mod.relpath if mod is not None else "?"
    return "%s:%s" % (rel, q) if q else rel


def enclosing_qual(node):
    """Qualified name of the innermost enclosing def/class chain of a node
    (uses _parent links)."""
    parts = []
    cur = getattr(node, "_parent", None)
    if isinstance(node, FuncTypes + (ast.ClassDef,)):
        parts.append(node.name)
    while cur is not None:
        if isinstance(cur, FuncTypes + (ast.ClassDef,)):
            parts.append(cur.name)
        elif isinstance(cur, ast.Lambda):
            parts.append("<lambda>")
        cur = getattr(cur, "_parent", None)
    return ".".join(reversed(parts)) or "<module>"


# --------------------------------------------------------------------------
# reporting
# --------------------------------------------------------------------------
def norm_text(s):
    return " ".join(str(s).split())


class Obligation(object):
    __slots__ = ("rule", "where", "text", "status", "detail", "line", "count")

    def __init__(self, rule, where_, text, status, detail, line, count=1):
        self.rule, self.where, self.text = rule, where_, norm_text(text)
        self.status, self.detail, self.line = status, norm_text(detail), line
        self.count = count

    @property
    def key(self):
        return "%s|%s|%s" % (self.rule, self.where, self.text)

    def as_dict(self, pid):
        d = {"property": pid, "rule": self.rule, "where": self.where, "line": self.line,
             "construct": self.text, "status": self.status, "detail": self.detail, "key": self.key}
        if self.count != 1:
            d["instances"] = self.count
        return d


class Check(object):
    """Collector for one property run."""

    def __init__(self, pid, tier="quick", repo=None):
        self.pid = pid
        self.tier = tier
        self.repo = repo
        self.obls = []
        self.notes = []
        self.floors = []
        self.facts = {}
        self.rules = {}
        self.undecided = []
        self.pending_errors = []

    # rule registry (text goes to the evidence)
    def rule(self, rid, text):
        self.rules[rid] = norm_text(text)

    def ok(self, rule, where_, text, detail="", node=None):
        self.obls.append(Obligation(rule, where_, text, "discharged", detail, getattr(node, "lineno", None)))

    def bad(self, rule, where_, text, why, node=None):
        self.obls.append(Obligation(rule, where_, text, "violated", why, getattr(node, "lineno", None)))

    def ok_many(self, rule, where_, text, count, detail="", node=None):
        """``count`` instances of one obligation family, all discharged (kept as one record)."""
        self.obls.append(Obligation(rule, where_, text, "discharged", detail, getattr(node, "lineno", None), count))

    def decide(self, cond, rule, where_, text, why="", detail="", node=None):
        if cond:
            self.ok(rule, where_, text, detail, node)
        else:
            self.bad(rule, where_, text, why, node)
        return cond

    def note(self, rule, where_, text):
        self.notes.append({"rule": rule, "where": where_, "note": norm_text(text)})

    def floor(self, rule, count, minimum, what=""):
        self.floors.append({"rule": rule, "count": count, "floor": minimum, "what": what})
        if count < minimum:
            # deferred: the other rules still run; reported as ANALYSIS-ERROR unless a violation was proved
            self.pending_errors.append("floor not met for %s: matched %d instance(s), confirmed by hand %d (%s) - "
                                       "the rule has gone blind" % (rule, count, minimum, what))

    def require(self, cond, msg):
        if not cond:
            raise AnalysisError(msg)

    def defer(self, msg):
        """this rule met code outside its fragment: the other rules still run; reported as ANALYSIS-ERROR at the end
        unless a violation was proved"""
        self.pending_errors.append(norm_text(msg))

    @property
    def violations(self):
        return [o for o in self.obls if o.status == "violated"]


def load_known(path=None):
    path = path or os.path.join(VERIF, "known_findings.json")
    if not os.path.exists(path):
        return {"findings": [], "fixed": []}
    with open(path) as f:
        return json.load(f)


def safe_name(key):
    h = hashlib.sha256(key.encode()).hexdigest()[:10]
    stem = re.sub(r"[^A-Za-z0-9_.-]+", "_", key)[:60].strip("_")
    return "%s-%s" % (stem, h)


def finish(chk, t0, seed, error=None, extra_cov=None, out=sys.stdout, write=True,
           evidence_dir=None, replay_dir=None):
    """Print the report, write evidence and replay files, return exit status."""
    pid = chk.pid
    known = load_known()
    listed = {}
    for f in known.get("findings", []):
        if f.get("property") == pid:
            listed[f["key"]] = f
    viol = chk.violations
    unlisted = [o for o in viol if o.key not in listed]
    known_hit = [o for o in viol if o.key in listed]

    evidence_dir = evidence_dir or os.path.join(VERIF, "evidence")
    replay_dir = replay_dir or os.path.join(VERIF, "replays", pid)
    lines = []
    for o in known_hit:
        lines.append("KNOWN-FINDING: property=%s %s at %s: %s (%s)"
                     % (pid, o.rule, o.where, o.text, listed[o.key].get("what", o.detail)))
    status = 0
    if error is not None and not unlisted:
        lines.append("ANALYSIS-ERROR property=%s %s" % (pid, norm_text(error)))
        status = 2
    elif unlisted:
        if error is not None:
            # a proved violation stands on its own; the part of the analysis that could not finish is reported too
            lines.append("ANALYSIS-INCOMPLETE property=%s %s" % (pid, norm_text(error)))
        status = 1
        if write:
            os.makedirs(replay_dir, exist_ok=True)
        for o in unlisted:
            rp = os.path.join(replay_dir, safe_name(o.key) + ".json")
            if write:
                with open(rp, "w") as f:
                    json.dump(o.as_dict(pid), f, indent=1, sort_keys=True)
            lines.append("VIOLATION property=%s replay=%s" % (pid, rp))
            lines.append("  rule=%s at %s%s" % (o.rule, o.where, (" line %s" % o.line) if o.line else ""))
            lines.append("  construct: %s" % o.text)
            lines.append("  why: %s" % o.detail)

    nob = sum(o.count for o in chk.obls)
    ndis = sum(o.count for o in chk.obls if o.status == "discharged")
    distinct = len({(o.rule, o.where, o.text) for o in chk.obls})
    constructs = len({o.where for o in chk.obls})
    per_rule = {}
    for o in chk.obls:
        d = per_rule.setdefault(o.rule, {"obligations": 0, "discharged": 0})
        d["obligations"] += o.count
        d["discharged"] += o.count if o.status == "discharged" else 0
    samples = []
    seen_rules = set()
    for o in chk.obls:            # one sample per rule first, then fill
        if o.rule not in seen_rules:
            seen_rules.add(o.rule)
            samples.append(o.as_dict(pid))
    for o in chk.obls:
        if len(samples) >= 40:
            break
        d = o.as_dict(pid)
        if d not in samples:
            samples.append(d)
    for o in viol:
        d = o.as_dict(pid)
        if d not in samples:
            samples.append(d)
    cov = {
        "explanation": chk.facts.pop("explanation", ""),
        "obligations": nob,
        "discharged": ndis,
        "evaluations": nob,
        "distinct_nontrivial": distinct,
        "rule": "one obligation per (rule, construct, normalised statement) found in the current source; "
                "distinct = distinct such triples; every one is non-trivial in that it names a concrete "
                "construct of /repo and a rule that could fail on it",
        "constructs": constructs,
        "samples": samples,
        "per_rule": per_rule,
        "rules": chk.rules,
        "floors": chk.floors,
        "notes": chk.notes,
        "not_decided": chk.undecided,
        "modules_consulted": sorted(chk.repo.consulted) if chk.repo else [],
        "source_digest": chk.repo.digest() if chk.repo else "",
        "locals_renamed_to_reference": {m: {q: d for q, d in v.items()} for m, v in chk.repo.renamed.items()
                                        if m in chk.repo.consulted} if chk.repo else {},
        "helpers_inlined": {m: v for m, v in chk.repo.inlined.items() if m in chk.repo.consulted} if chk.repo else {},
        "views_simplified": {m: v for m, v in getattr(chk.repo, "simplified", {}).items() if m in chk.repo.consulted} if chk.repo else {},
        "statements_proved_equivalent_to_reference": {m: v for m, v in chk.repo.segments.items()
                                                      if m in chk.repo.consulted} if chk.repo else {},
        "units_proved_equivalent_to_reference": {m: v for m, v in chk.repo.adopted.items()
                                                 if m in chk.repo.consulted} if chk.repo else {},
        "known_findings_matched": [o.key for o in known_hit],
        "exhaustive": False,
        "trusted_base": ["CPython ast", "PEP 479 / data-model semantics of the interpreter",
                         "fact tables printed under 'facts'"],
        "facts": chk.facts,
    }
    if extra_cov:
        cov.update(extra_cov)
    ev = {
        "property_id": pid,
        "tier": chk.tier,
        "seed": seed,
        "level": "other",
        "coverage": cov,
        "assumptions": chk.facts.get("assumptions", []) if isinstance(chk.facts.get("assumptions"), list) else [],
        "wall_s": round(time.time() - t0, 3),
        "violations": len(unlisted),
        "status": {0: "held", 1: "violation", 2: "analysis-error"}[status],
    }
    if error is not None:
        ev["analysis_error"] = norm_text(error)
    if write:
        os.makedirs(evidence_dir, exist_ok=True)
        with open(os.path.join(evidence_dir, pid + ".json"), "w") as f:
            json.dump(ev, f, indent=1, sort_keys=True)
    lines.append("%s tier=%s obligations=%d discharged=%d violations=%d known=%d notes=%d constructs=%d wall=%.2fs"
                 % (pid, chk.tier, nob, ndis, len(unlisted), len(known_hit), len(chk.notes), constructs,
                    time.time() - t0))
    out.write("\n".join(lines) + "\n")
    return status, ev


# --------------------------------------------------------------------------
# name resolution through imports (Python-3 side of lazy_compat folded)
# --------------------------------------------------------------------------
COMPAT_CANON = {"xmap": "map", "xzip": "zip", "xfilter": "filter", "xrange": "range",
                "xzip_longest": "itertools.zip_longest", "izip_longest": "itertools.zip_longest"}


def import_table(mod):
    """name -> canonical dotted origin, for module-level imports of ``mod``
    (also those inside try/except ImportError fallbacks: first binding wins
    for the py3 branch, which is always the ``try`` body)."""
    if hasattr(mod, "_imports"):
        return mod._imports
    table = {}

    def visit(body):
        for st in body:
            if isinstance(st, ast.Import):
                for a in st.names:
                    table.setdefault(a.asname or a.name.split(".")[0], a.name if a.asname else a.name.split(".")[0])
            elif isinstance(st, ast.ImportFrom):
                src = ("." * st.level) + (st.module or "")
                for a in st.names:
                    nm = a.asname or a.name
                    if src == ".lazy_compat" and a.name in COMPAT_CANON:
                        table.setdefault(nm, COMPAT_CANON[a.name])
                    elif src.startswith("."):
                        table.setdefault(nm, "%s:%s" % (src.lstrip("."), a.name))
                    else:
                        table.setdefault(nm, "%s.%s" % (src, a.name))
            elif isinstance(st, ast.Try):
                visit(st.body)
                for h in st.handlers:
                    visit(h.body)
            elif isinstance(st, ast.If):
                visit(st.body)
                visit(st.orelse)
    visit(mod.tree.body)
    mod._imports = table
    return table


def canon(mod, node):
    """Canonical dotted name of a Name/Attribute expression in ``mod``:
    ``it.tee`` -> ``itertools.tee``, ``xmap`` -> ``map``, ``Stream`` ->
    ``lazy_stream:Stream``; unknown names are returned unchanged."""
    d = dotted(node)
    if d is None:
        return None
    table = import_table(mod)
    head, _, rest = d.partition(".")
    if head in table:
        base = table[head]
        return base + ("." + rest if rest else "")
    return d


def canon_call(mod, node):
    if isinstance(node, ast.Call):
        return canon(mod, node.func)
    return None


def base_name(canon_name):
    """Strip the ``module:`` prefix of a sibling import: ``lazy_stream:Stream`` -> ``Stream``."""
    if canon_name and ":" in canon_name:
        return canon_name.split(":", 1)[1]
    return canon_name
