"""E3  StopIteration-escape analysis (PEP 479).

A ``StopIteration`` that leaves a generator frame (generator function,
generator expression) is turned into ``RuntimeError`` by the interpreter
(Python >= 3.7).  Whether a raiser sits unprotected in such a frame is a
syntactic fact.

Raisers
  * ``next(x)`` with a single argument (no default);
  * ``raise StopIteration`` / ``raise StopIteration(...)``;
  * a call of a *plain* repository function whose summary says "may raise
    StopIteration" (computed to a fixpoint): e.g. ``Stream.take`` when its
    ``n`` is ``None`` and ``Stream.peek`` which forwards its ``n``.

Protected = an enclosing ``try`` *in the same frame* with a handler for
``StopIteration``, ``Exception``, ``BaseException`` or a bare ``except``.
"""
import ast

from .core import FuncTypes, unparse, enclosing_qual, is_generator_function

CATCHERS = {"StopIteration", "Exception", "BaseException"}


def handler_catches(try_node):
    for h in try_node.handlers:
        if h.type is None:
            return True
        elts = h.type.elts if isinstance(h.type, ast.Tuple) else [h.type]
        for e in elts:
            if isinstance(e, ast.Name) and e.id in CATCHERS:
                return True
    return False


class Site(object):
    def __init__(self, node, kind, frame_kind, frame_node, protected, cond=None):
        self.node = node
        self.kind = kind              # "next" | "raise" | "call:<name>"
        self.frame_kind = frame_kind  # "gen" | "genexp" | "plain" | "lambda" | "module"
        self.frame_node = frame_node
        self.protected = protected
        self.cond = cond              # for plain frames: param name whose None-ness guards the raiser

    @property
    def in_generator(self):
        return self.frame_kind in ("gen", "genexp")

    @property
    def escapes(self):
        return self.in_generator and not self.protected


class Summary(object):
    """may-raise-StopIteration summary of a plain function."""

    def __init__(self, func, always=False, params=None):
        self.func = func
        self.always = always
        self.params = set(params or ())   # raises iff one of these params is None

    def __bool__(self):
        return self.always or bool(self.params)


def _param_info(func):
    a = func.args
    names = [x.arg for x in a.posonlyargs + a.args]
    defaults = [None] * (len(names) - len(a.defaults)) + list(a.defaults)
    info = {}
    for i, (n, d) in enumerate(zip(names, defaults)):
        info[n] = (i, d)
    for n, d in zip(a.kwonlyargs, a.kw_defaults):
        info[n.arg] = (None, d)
    return names, info


def _none_guard(node, func):
    """If ``node`` sits under ``if <param> is None`` (then-branch) in ``func``,
    return that parameter name."""
    names, info = _param_info(func)
    cur = node
    parent = getattr(cur, "_parent", None)
    while parent is not None and parent is not func:
        if isinstance(parent, ast.If) and cur in parent.body:
            t = parent.test
            if isinstance(t, ast.Compare) and len(t.ops) == 1 and isinstance(t.ops[0], ast.Is) \
                    and isinstance(t.left, ast.Name) and t.left.id in info \
                    and isinstance(t.comparators[0], ast.Constant) and t.comparators[0].value is None:
                return t.left.id
        cur, parent = parent, getattr(parent, "_parent", None)
    return None


class E3(object):
    def __init__(self, trees):
        """trees: iterable of (label, ast.Module) - parent links must be set."""
        self.trees = list(trees)
        self.summaries = {}      # bare function/method name -> Summary
        self._compute_summaries()

    # ----------------------------------------------------------------- scan
    def scan(self, root, frame_kind="module", frame_node=None, protected=False, out=None):
        """Collect raiser sites under ``root`` (a statement, expression or list)."""
        if out is None:
            out = []
        if isinstance(root, list):
            for r in root:
                self.scan(r, frame_kind, frame_node, protected, out)
            return out
        node = root
        if isinstance(node, FuncTypes):
            for d in node.decorator_list:
                self.scan(d, frame_kind, frame_node, protected, out)
            for d in node.args.defaults + [k for k in node.args.kw_defaults if k is not None]:
                self.scan(d, frame_kind, frame_node, protected, out)
            fk = "gen" if is_generator_function(node) else "plain"
            self.scan(node.body, fk, node, False, out)
            return out
        if isinstance(node, ast.Lambda):
            self.scan(node.body, "lambda", node, False, out)
            return out
        if isinstance(node, ast.GeneratorExp):
            self.scan(node.generators[0].iter, frame_kind, frame_node, protected, out)
            self.scan(node.elt, "genexp", node, False, out)
            for i, g in enumerate(node.generators):
                for c in g.ifs:
                    self.scan(c, "genexp", node, False, out)
                if i:
                    self.scan(g.iter, "genexp", node, False, out)
            return out
        if isinstance(node, ast.Try):
            p = protected or handler_catches(node)
            self.scan(node.body, frame_kind, frame_node, p, out)
            for h in node.handlers:
                self.scan(h.body, frame_kind, frame_node, protected, out)
            self.scan(node.orelse, frame_kind, frame_node, protected, out)
            self.scan(node.finalbody, frame_kind, frame_node, protected, out)
            return out
        if isinstance(node, ast.Call):
            kind = self._raiser_call(node, frame_node)
            if kind:
                out.append(Site(node, kind[0], frame_kind, frame_node, protected, kind[1]))
        if isinstance(node, ast.Raise) and node.exc is not None:
            e = node.exc.func if isinstance(node.exc, ast.Call) else node.exc
            if isinstance(e, ast.Name) and e.id == "StopIteration":
                out.append(Site(node, "raise", frame_kind, frame_node, protected))
        for ch in ast.iter_child_nodes(node):
            self.scan(ch, frame_kind, frame_node, protected, out)
        return out

    def _raiser_call(self, call, frame_node):
        f = call.func
        if isinstance(f, ast.Name) and f.id == "next" and len(call.args) == 1 and not call.keywords:
            cond = _none_guard(call, frame_node) if isinstance(frame_node, FuncTypes) else None
            return ("next", cond)
        name = f.id if isinstance(f, ast.Name) else f.attr if isinstance(f, ast.Attribute) else None
        s = self.summaries.get(name)
        if not s:
            return None
        if s.always:
            return ("call:" + name, None)
        names, info = _param_info(s.func)
        is_method = bool(names) and names[0] in ("self", "cls")
        for p in s.params:
            idx, default = info[p]
            arg = None
            for kw in call.keywords:
                if kw.arg == p:
                    arg = kw.value
                if kw.arg is None:
                    return None     # **kwargs: unknown, exempt
            if arg is None and idx is not None:
                pos = idx - (1 if is_method and isinstance(f, ast.Attribute) else 0)
                if any(isinstance(a, ast.Starred) for a in call.args):
                    return None
                if 0 <= pos < len(call.args):
                    arg = call.args[pos]
            if arg is None:
                if isinstance(default, ast.Constant) and default.value is None:
                    return ("call:" + name, None)
                continue
            if isinstance(arg, ast.Constant) and arg.value is None:
                return ("call:" + name, None)
            if isinstance(arg, ast.Name) and isinstance(frame_node, FuncTypes):
                # forwarding one of our own parameters whose default is None
                _, finfo = _param_info(frame_node)
                if arg.id in finfo:
                    d = finfo[arg.id][1]
                    if isinstance(d, ast.Constant) and d.value is None:
                        return ("call:" + name, arg.id)
        return None

    # ------------------------------------------------------------ summaries
    def _compute_summaries(self):
        funcs = []
        for _, tree in self.trees:
            for n in ast.walk(tree):
                if isinstance(n, FuncTypes) and not is_generator_function(n):
                    funcs.append(n)
        changed = True
        rounds = 0
        while changed and rounds < 6:
            changed = False
            rounds += 1
            for fn in funcs:
                sites = [s for s in self.scan(fn.body, "plain", fn, False)
                         if s.frame_node is fn and not s.protected]
                if not sites:
                    continue
                always = any(s.cond is None for s in sites)
                params = {s.cond for s in sites if s.cond is not None}
                old = self.summaries.get(fn.name)
                # only summarise names that are unambiguous enough: methods /
                # functions defined once with this name among raisers
                new = Summary(fn, always, params)
                if old is None or old.func is not fn and not old:
                    self.summaries[fn.name] = new
                    changed = True
                elif old.func is fn and (old.always != new.always or old.params != new.params):
                    self.summaries[fn.name] = new
                    changed = True
        # drop summaries for very common names where receiver resolution by
        # name would be a guess
        for common in ("get", "pop", "append", "__init__", "__call__", "next", "__next__"):
            self.summaries.pop(common, None)


def describe(site):
    fk = {"gen": "generator function", "genexp": "generator expression", "plain": "plain function",
          "lambda": "lambda", "module": "module level"}[site.frame_kind]
    return "%s in %s %s" % (unparse(site.node), fk, "(protected by try/except)" if site.protected else "(unprotected)")
