"""E4  linear use / tee accounting.

A Stream can be iterated once.  ``thub(x, n)`` buys exactly ``n`` iterations
(and is the identity on numbers).  This module counts *uses* of a value along
the paths of a function, with multiplicities as polynomials over symbolic
sizes (RF), and compares them with the declared budgets.
"""
import ast

from .core import FuncTypes, unparse, docstring_free
from .ratfun import RF, Evaluator, Inconclusive

# size facts confirmed by reading (printed in the evidence)
SIZE_FACTS = [
    "len(p) == size(p._data) for a Poly p (Poly.__len__ returns len(self._data); checked on every run)",
    "iteritems(d), d.items(), d.terms() (Poly.terms iterates the keys of _data) have size(d)",
    "a comprehension / generator over Y has size(Y) when it has no 'if' clause",
    "[a, b, ...] * k has len * k elements; range(n) has n",
    "reduce(f, xs) calls f size(xs) - 1 times",
]


def size_of(expr, local_sizes=None):
    """RF size of an iterable expression, or None when unknown."""
    local_sizes = local_sizes or {}
    if isinstance(expr, ast.Name) and expr.id in local_sizes:
        return local_sizes[expr.id]
    if isinstance(expr, ast.Call):
        fn = unparse(expr.func)
        if fn in ("iteritems", "iter", "list", "tuple", "sorted", "reversed", "enumerate", "itervalues") and expr.args:
            return size_of(expr.args[0], local_sizes)
        if fn in ("xrange", "range") and len(expr.args) == 1:
            try:
                return Evaluator(call_hook=_len_hook).ev(expr.args[0])
            except Inconclusive:
                return None
        if isinstance(expr.func, ast.Attribute) and expr.func.attr in ("terms", "items", "values", "keys") \
                and not expr.args:
            return size_sym(expr.func.value)
    if isinstance(expr, (ast.List, ast.Tuple)):
        return RF.const(len(expr.elts))
    if isinstance(expr, ast.BinOp) and isinstance(expr.op, ast.Mult):
        for a, b in ((expr.left, expr.right), (expr.right, expr.left)):
            sa = size_of(a, local_sizes)
            if sa is not None and isinstance(b, ast.Constant) and isinstance(b.value, int):
                return sa * b.value
    if isinstance(expr, (ast.ListComp, ast.GeneratorExp)) and len(expr.generators) == 1 and not expr.generators[0].ifs:
        return size_of(expr.generators[0].iter, local_sizes)
    if isinstance(expr, (ast.Name, ast.Attribute)):
        return size_sym(expr)
    return None


def size_sym(expr):
    t = unparse(expr)
    # Poly: terms()/len() are over _data ; self.callables has the size of self
    if t.endswith("._data"):
        t = t[:-len("._data")]
    if t.endswith(".callables"):
        t = t[:-len(".callables")]
    return RF.sym("size(%s)" % t)


def _len_hook(ev, name, node):
    if name == "len" and len(node.args) == 1:
        return size_sym(node.args[0])
    return None


def budget_of(expr):
    """RF value of a thub budget expression (int literal or len(...))."""
    try:
        return Evaluator(call_hook=_len_hook, strict_names=False).ev(expr)
    except Inconclusive:
        return None


def nonneg(rf):
    """Is the polynomial (over size symbols, all >= 0) certainly >= 0 ?"""
    s = rf.simplified()
    if set(s.d) != {()}:
        return None
    return all(c / s.d[()] >= 0 for c in s.n.values())


def is_zero(rf):
    return rf.is_zero()


class Use(object):
    def __init__(self, node, mult, copied):
        self.node, self.mult, self.copied = node, mult, copied


def _in_test_position(node, stop):
    """Is node inside an isinstance(...) call or the test of if/while/ifexp/assert/compare-to-constant?"""
    cur = node
    parent = getattr(cur, "_parent", None)
    while parent is not None and cur is not stop:
        if isinstance(parent, ast.Call) and unparse(parent.func) in ("isinstance", "callable", "hasattr", "len", "type"):
            return True
        if isinstance(parent, (ast.If, ast.While, ast.IfExp)) and parent.test is cur:
            return True
        if isinstance(parent, ast.Assert):
            return True
        if isinstance(parent, ast.Compare):
            return True
        if isinstance(parent, ast.UnaryOp) and isinstance(parent.op, ast.Not):
            return True
        cur, parent = parent, getattr(parent, "_parent", None)
    return False


def find_uses(root, matcher, local_sizes=None, callee_uses=None, mult=None):
    """Uses of expressions for which ``matcher(node)`` holds below ``root``,
    each with its multiplicity (product of the sizes of the enclosing
    comprehensions / for loops inside root) and whether it is the receiver of
    ``.copy()``.  Occurrences in test positions are not uses."""
    out = []
    one = RF.const(1)

    def walk(node, mult):
        if matcher(node):
            parent = getattr(node, "_parent", None)
            copied = isinstance(parent, ast.Attribute) and parent.attr == "copy" and \
                isinstance(getattr(parent, "_parent", None), ast.Call) and parent._parent.func is parent
            if not _in_test_position(node, root):
                m = mult
                # passed to a callee that uses its parameter k times
                if callee_uses is not None and isinstance(parent, ast.Call) and node in parent.args:
                    k = callee_uses(parent, parent.args.index(node))
                    if k is not None:
                        m = m * k
                out.append(Use(node, m, copied))
            return
        if isinstance(node, (ast.ListComp, ast.GeneratorExp, ast.SetComp, ast.DictComp)):
            m = mult
            for g in node.generators:
                walk(g.iter, m)
                s = size_of(g.iter, local_sizes)
                if s is None:
                    s = RF.sym("size(%s)" % unparse(g.iter))
                m = m * s
                for c in g.ifs:
                    walk(c, m)
            if isinstance(node, ast.DictComp):
                walk(node.key, m)
                walk(node.value, m)
            else:
                walk(node.elt, m)
            return
        if isinstance(node, ast.For):
            walk(node.iter, mult)
            s = size_of(node.iter, local_sizes)
            if s is None:
                s = RF.sym("size(%s)" % unparse(node.iter))
            for st in node.body:
                walk(st, mult * s)
            for st in node.orelse:
                walk(st, mult)
            return
        if isinstance(node, ast.If):
            # both branches: take them separately is the caller's job (paths);
            # here (nested inside a loop) require equal counts and take the body's
            walk(node.test, mult)
            before = len(out)
            for st in node.body:
                walk(st, mult)
            body_uses = out[before:]
            del out[before:]
            for st in node.orelse:
                walk(st, mult)
            else_uses = out[before:]
            del out[before:]
            tot = lambda us: sum((u.mult for u in us), RF.const(0))
            # keep the larger side when comparable, else the body (reported as uncertain by caller through .alt)
            tb, te = tot(body_uses), tot(else_uses)
            if tb == te or nonneg(tb - te):
                out.extend(body_uses)
            else:
                out.extend(else_uses)
            return
        if isinstance(node, ast.IfExp):
            walk(node.test, mult)
            before = len(out)
            walk(node.body, mult)
            b = out[before:]
            del out[before:]
            walk(node.orelse, mult)
            e = out[before:]
            del out[before:]
            tot = lambda us: sum((u.mult for u in us), RF.const(0))
            out.extend(b if (tot(b) == tot(e) or nonneg(tot(b) - tot(e))) else e)
            return
        if isinstance(node, FuncTypes + (ast.Lambda,)):
            return          # nested frames are multiplied by their call count by the caller
        for ch in ast.iter_child_nodes(node):
            walk(ch, mult)

    if isinstance(root, list):
        for r in root:
            walk(r, mult or one)
    else:
        walk(root, mult or one)
    return out


def total(uses, bare_only=False):
    t = RF.const(0)
    for u in uses:
        if bare_only and u.copied:
            continue
        t = t + u.mult
    return t


# --------------------------------------------------------------------------
# straight-line paths with rebinding (design strategies and similar)
# --------------------------------------------------------------------------
def simple_paths(stmts):
    """Straight-line paths (lists of simple statements / ('test', expr)) through if/else up to return."""
    if not stmts:
        return [[]]
    s, rest = stmts[0], stmts[1:]
    if isinstance(s, ast.If):
        out = []
        for branch in (s.body, s.orelse):
            for p in simple_paths(list(branch)):
                if p and isinstance(p[-1], (ast.Return, ast.Raise)):
                    out.append([("test", s.test)] + p)
                else:
                    for q in simple_paths(rest):
                        out.append([("test", s.test)] + p + q)
        return out
    if isinstance(s, (ast.Return, ast.Raise)):
        return [[s]]
    if isinstance(s, ast.Try):
        return simple_paths(list(s.body) + list(s.orelse) + rest)
    if isinstance(s, FuncTypes):
        return simple_paths(rest)
    return [[s] + q for q in simple_paths(rest)]


class HubRecord(object):
    def __init__(self, name, budget, node, kind):
        self.name, self.budget, self.node, self.kind = name, budget, node, kind   # kind: hub | derived | param
        self.uses = RF.const(0)
        self.use_nodes = []


def is_thub_call(e):
    return isinstance(e, ast.Call) and isinstance(e.func, ast.Name) and e.func.id == "thub" and len(e.args) == 2


def analyse_hubs(func, callee_uses=None, maybe_stream_params=()):
    """Per path: every name bound by ``thub(e, N)`` gets budget N; a name
    rebound from an expression that uses a tracked (maybe-stream) value gets
    budget 1 (a derived Stream can be iterated once); parameters listed in
    ``maybe_stream_params`` start with budget 1.  Returns list of records per path."""
    results = []
    body = docstring_free(func.body)
    for path in simple_paths(body):
        live = {}
        done = []
        local_sizes = {}
        for p in maybe_stream_params:
            live[p] = HubRecord(p, RF.const(1), func, "param")
        for st in path:
            if isinstance(st, tuple):
                continue
            if isinstance(st, ast.For) and live:
                # the body runs size(iter) times; its own branches exclude each other: the dearest path counts
                names = set(live)
                matcher = lambda n, names=names: isinstance(n, ast.Name) and isinstance(n.ctx, ast.Load) and n.id in names
                uses = find_uses(st.iter, matcher, local_sizes, callee_uses)
                inner = _block_uses(list(st.body), matcher, local_sizes, callee_uses)
                if inner:
                    sz = size_of(st.iter, local_sizes)
                    if sz is None:
                        from .core import AnalysisError
                        raise AnalysisError("loop over %s uses a hub: number of iterations not interpretable" % unparse(st.iter))
                    for u in inner:
                        u.mult = u.mult * sz
                        uses.append(u)
                for u in uses:
                    rec = live[u.node.id]
                    rec.uses = rec.uses + u.mult
                    rec.use_nodes.append(u.node)
                continue
            if isinstance(st, (ast.Assign, ast.Return, ast.Expr, ast.AugAssign)):
                val = st.value
                if val is None:
                    continue
                # next(xs) takes one item off a sized iterator
                for c in ast.walk(val):
                    if isinstance(c, ast.Call) and isinstance(c.func, ast.Name) and c.func.id == "next" and c.args \
                            and isinstance(c.args[0], ast.Name) and c.args[0].id in local_sizes:
                        local_sizes[c.args[0].id] = local_sizes[c.args[0].id] - 1
                names = set(live)
                matcher = lambda n, names=names: isinstance(n, ast.Name) and isinstance(n.ctx, ast.Load) and n.id in names
                uses = find_uses(val, matcher, local_sizes, callee_uses)
                # reduce(<nested def>, xs): the def body runs size(xs) - 1 times
                for c in ast.walk(val):
                    if isinstance(c, ast.Call) and unparse(c.func) in ("reduce", "functools.reduce") \
                            and len(c.args) >= 2 and isinstance(c.args[0], ast.Name):
                        inner = [f for f in ast.walk(func) if isinstance(f, FuncTypes) and f.name == c.args[0].id
                                 and f is not func]
                        sz = size_of(c.args[1], local_sizes)
                        if inner and sz is not None:
                            calls = sz - 1 if len(c.args) == 2 else sz
                            # the closure's own branches exclude each other: the dearest path counts, per call
                            best = []
                            for ipath in simple_paths(docstring_free(inner[0].body)):
                                got = []
                                for ist in ipath:
                                    ival = ist[1] if isinstance(ist, tuple) else getattr(ist, "value", None)
                                    if ival is not None:
                                        got.extend(find_uses(ival, matcher, local_sizes, callee_uses))
                                if len(got) > len(best):
                                    best = got
                            for u in best:
                                u.mult = u.mult * calls
                                uses.append(u)
                touched = set()
                for u in uses:
                    rec = live[u.node.id]
                    rec.uses = rec.uses + u.mult
                    rec.use_nodes.append(u.node)
                    touched.add(u.node.id)
                # inline thub(e, N) operands (not assigned)
                if isinstance(st, ast.Assign) and len(st.targets) == 1 and isinstance(st.targets[0], ast.Name):
                    t = st.targets[0].id
                    s = None if isinstance(val, (ast.Name, ast.Attribute)) else size_of(val, local_sizes)
                    if s is not None and not is_thub_call(val):
                        local_sizes[t] = s
                    if t in live:
                        done.append(live.pop(t))
                    if is_thub_call(val):
                        b = budget_of(val.args[1])
                        live[t] = HubRecord(t, b, st, "hub")
                    elif touched or _mentions_iterable_op(val):
                        live[t] = HubRecord(t, RF.const(1), st, "derived")
        done.extend(live.values())
        results.append(done)
    return results


def _block_uses(stmts, matcher, local_sizes, callee_uses):
    """Uses of tracked names in one execution of a block: the dearest of its straight-line paths; nested loops
    multiply by their own size."""
    best = []
    for ipath in simple_paths(stmts):
        got = []
        for ist in ipath:
            if isinstance(ist, ast.For):
                got.extend(find_uses(ist.iter, matcher, local_sizes, callee_uses))
                sub = _block_uses(list(ist.body), matcher, local_sizes, callee_uses)
                if sub:
                    sz = size_of(ist.iter, local_sizes)
                    if sz is None:
                        from .core import AnalysisError
                        raise AnalysisError("loop over %s uses a hub: number of iterations not interpretable" % unparse(ist.iter))
                    for u in sub:
                        u.mult = u.mult * sz
                        got.append(u)
                continue
            ival = ist[1] if isinstance(ist, tuple) else getattr(ist, "value", None)
            if ival is not None and not isinstance(ist, FuncTypes):
                got.extend(find_uses(ival, matcher, local_sizes, callee_uses))
        if len(got) > len(best):
            best = got
    return best


def _mentions_iterable_op(val):
    return False


def inline_hubs(func):
    """``thub(e, N)`` used directly as an operand (not bound to a name): the hub is used once."""
    out = []
    for n in ast.walk(func):
        if is_thub_call(n):
            p = getattr(n, "_parent", None)
            if not (isinstance(p, ast.Assign) and p.value is n):
                out.append(n)
    return out
