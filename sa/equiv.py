"""E13  refactoring-equivalence normaliser.

Many rules are written for the shape a function has on the tree on which their
instances were confirmed (the snapshot under /verif/reference).  A
behaviour-preserving refactoring must not change a verdict.  Before the rules
run, every function of the current tree is compared with its namesake in the
snapshot *modulo a small set of semantics-preserving rewrites*; when the two
canonical forms coincide the function is, by construction of the rewrites,
equivalent to the confirmed instance and the rules are applied to the confirmed
shape.  When they differ nothing is assumed: the rules see the current code.

Rewrites (each one preserves behaviour, evaluation order of effects included):
  T0  docstrings / ``pass`` dropped
  T1  private helpers inlined (single-return expression helpers; statement
      helpers called as a statement, ``x = h(..)`` or ``return h(..)`` with
      simple arguments)
  T2  temporaries: ``v = E`` immediately followed by ``return v`` / ``yield v``
      / ``x = v``, or call-free ``E`` used once in the next statement
  T3  control flow: ``if not c: A else: B`` -> ``if c: B else: A``; ``else``
      after a body that always leaves is flattened; single-exit chains
      (``if..: r = E1 else: r = E2; return r``) -> early returns; nested ifs
      without else merged with ``and``; ``x = A if c else B`` <-> if/else
  T4  expressions: ``>``/``>=`` flipped to ``<``/``<=``; negation pushed through
      and/or and ``==``/``!=``/``is``/``in`` (never through orderings: NaN);
      call-free arithmetic to rational normal form; ``dict(k=v)`` -> literal;
      list literal -> tuple in iteration position; ``a = b = v`` split when v
      is a name or constant; chained comparison kept
  T5  adjacent independent simple assignments sorted
  T6  bound names numbered by first occurrence (alpha-equivalence)
  T7  class-level ``name = deco(lambda ...: E)`` <-> ``@deco def name(..): return E``
"""
import ast
import copy
from fractions import Fraction

from .core import FuncTypes, docstring_free
from .ratfun import Evaluator, Inconclusive, RF

PURE_CALLS = {"len", "int", "float", "abs", "min", "max", "range", "xrange", "thub", "exp", "cos", "sin", "sqrt",
              "isinstance", "tuple", "list", "str", "rint", "round", "iter", "enumerate", "reversed", "sorted",
              "iteritems", "Poly", "ZFilter", "Stream", "type", "getattr", "hasattr", "callable", "set", "frozenset",
              "OrderedDict", "dict", "zip", "xzip", "map", "xmap", "filter", "xfilter"}


# --------------------------------------------------------------------------- helpers
def _always_leaves(stmts):
    if not stmts:
        return False
    last = stmts[-1]
    if isinstance(last, (ast.Return, ast.Raise, ast.Continue, ast.Break)):
        return True
    if isinstance(last, ast.If) and last.orelse:
        return _always_leaves(last.body) and _always_leaves(last.orelse)
    if isinstance(last, ast.While) and isinstance(last.test, ast.Constant) and last.test.value and not last.orelse:
        # ``while True`` is left only through break (or return / raise)
        def has_break(stmts):
            for st in stmts:
                if isinstance(st, ast.Break):
                    return True
                if isinstance(st, (ast.For, ast.While)) or isinstance(st, FuncTypes + (ast.ClassDef,)):
                    if isinstance(st, (ast.For, ast.While)) and has_break(st.orelse):
                        return True
                    continue
                for fld in ("body", "orelse", "finalbody"):
                    if has_break(getattr(st, fld, []) or []):
                        return True
                for h in getattr(st, "handlers", []) or []:
                    if has_break(h.body):
                        return True
            return False
        return not has_break(last.body)
    return False


def _names(node, ctx=None):
    return [n for n in ast.walk(node) if isinstance(n, ast.Name) and (ctx is None or isinstance(n.ctx, ctx))]


def _append_loop_on(st, L):
    """for ...: [if P:] L.append(E)"""
    if not (isinstance(st, ast.For) and not st.orelse and len(st.body) == 1):
        return False
    b = st.body[0]
    if isinstance(b, ast.If) and not b.orelse and len(b.body) == 1:
        b = b.body[0]
    return isinstance(b, ast.Expr) and isinstance(b.value, ast.Call) and isinstance(b.value.func, ast.Attribute) \
        and b.value.func.attr == "append" and isinstance(b.value.func.value, ast.Name) and b.value.func.value.id == L


def _free_name_ids(node):
    """identifiers occurring in ``node``, not counting the variables that comprehensions bind for themselves"""
    out = set()

    def go(n, bound):
        if isinstance(n, (ast.GeneratorExp, ast.ListComp, ast.SetComp, ast.DictComp)):
            b2 = set(bound)
            for k, g in enumerate(n.generators):
                go(g.iter, b2 if k else bound)
                b2 |= {t.id for t in ast.walk(g.target) if isinstance(t, ast.Name)}
                for c in g.ifs:
                    go(c, b2)
            for fld in ("elt", "key", "value"):
                if hasattr(n, fld):
                    go(getattr(n, fld), b2)
            return
        if isinstance(n, ast.Name):
            if n.id not in bound:
                out.add(n.id)
            return
        for ch in ast.iter_child_nodes(n):
            go(ch, bound)
    go(node, frozenset())
    return out


def _has_call(node):
    return any(isinstance(n, (ast.Call, ast.Yield, ast.YieldFrom, ast.Await, ast.NamedExpr)) for n in ast.walk(node))


def _simple_arg(e):
    if isinstance(e, (ast.Name, ast.Constant)):
        return True
    if isinstance(e, ast.Attribute):
        return _simple_arg(e.value)
    return False


class _Subst(ast.NodeTransformer):
    def __init__(self, mapping):
        self.m = mapping

    def visit_Name(self, n):
        if n.id in self.m and isinstance(n.ctx, ast.Load):
            return ast.parse(ast.unparse(self.m[n.id]), mode="eval").body
        return n


def _count_loads(node, name):
    return sum(1 for n in _names(node, ast.Load) if n.id == name)


# --------------------------------------------------------------------------- T1 helper inlining
def _inlinable(st):
    if isinstance(st, FuncTypes) and not st.decorator_list and not st.args.vararg and not st.args.kwarg \
            and not st.args.kwonlyargs and st.name.startswith("_") and not st.name.startswith("__"):
        body = docstring_free(st.body)
        if body and not any(isinstance(n, (ast.Yield, ast.YieldFrom, ast.Global, ast.Nonlocal)) for n in ast.walk(st)):
            rets = [n for n in ast.walk(st) if isinstance(n, ast.Return)]
            return len(rets) <= 1 and (not rets or rets[0] is body[-1])
    return False


def helper_table(module_tree):
    """name -> FunctionDef for module-level private functions that are candidates for inlining."""
    return {st.name: st for st in module_tree.body if _inlinable(st)}


def method_tables(module_tree):
    """class name -> {method name -> FunctionDef} for private single-exit methods (called as ``self._m(..)``)"""
    out = {}
    for st in module_tree.body:
        if isinstance(st, ast.ClassDef):
            out[st.name] = {m.name: m for m in st.body if _inlinable(m) and m.args.args and m.args.args[0].arg == "self"}
    return out


def _resolve_helper(call, helpers, methods):
    """(FunctionDef, extra leading arguments) for a call to an inlinable helper, else (None, None)"""
    if isinstance(call.func, ast.Name) and call.func.id in helpers:
        return helpers[call.func.id], []
    if isinstance(call.func, ast.Attribute) and isinstance(call.func.value, ast.Name) and call.func.value.id == "self" \
            and call.func.attr in methods:
        return methods[call.func.attr], [ast.Name(id="self", ctx=ast.Load())]
    return None, None


def _bind_args(helper, call, lead=()):
    params = [a.arg for a in helper.args.args]
    if lead:
        call = ast.Call(func=call.func, args=list(lead) + list(call.args), keywords=call.keywords)
    if call.keywords and any(k.arg is None for k in call.keywords):
        return None
    if any(isinstance(a, ast.Starred) for a in call.args):
        return None
    bound = {}
    for p, a in zip(params, call.args):
        bound[p] = a
    for k in call.keywords:
        if k.arg not in params or k.arg in bound:
            return None
        bound[k.arg] = k.value
    defaults = helper.args.defaults
    for p, d in zip(params[len(params) - len(defaults):], defaults):
        bound.setdefault(p, d)
    if set(bound) != set(params):
        return None
    return bound


class _InlineExpr(ast.NodeTransformer):
    def __init__(self, helpers, local_helpers, methods=None):
        self.h, self.lh, self.m = helpers, local_helpers, methods or {}
        self.changed = False

    def visit_Call(self, node):
        self.generic_visit(node)
        if True:
            h, lead = _resolve_helper(node, self.h, self.m)
            if h is not None:
                body = docstring_free(h.body)
                if len(body) == 1 and isinstance(body[0], ast.Return) and body[0].value is not None:
                    bound = _bind_args(h, node, lead)
                    if bound is not None:
                        expr = body[0].value
                        ok = all(_simple_arg(a) or _count_loads(expr, p) == 1 for p, a in bound.items())
                        # more than one non-simple argument could be re-ordered: allow at most one
                        ok = ok and sum(1 for a in bound.values() if not _simple_arg(a)) <= 1
                        if ok:
                            self.changed = True
                            return _Subst(bound).visit(copy.deepcopy(expr))
        return node


def _inline_statement_helpers(stmts, helpers, counter, methods=None):
    """x = h(args) / h(args) / return h(args) with a multi-statement helper and simple arguments."""
    out = []
    changed = False
    for st in stmts:
        call = None
        kind = None
        if isinstance(st, ast.Expr) and isinstance(st.value, ast.Call):
            call, kind = st.value, "expr"
        elif isinstance(st, ast.Assign) and isinstance(st.value, ast.Call) and len(st.targets) == 1:
            call, kind = st.value, "assign"
        elif isinstance(st, ast.Return) and isinstance(st.value, ast.Call):
            call, kind = st.value, "return"
        h, lead = _resolve_helper(call, helpers, methods or {}) if call is not None else (None, None)
        if h is not None:
            body = docstring_free(h.body)
            if len(body) > 1 or (body and not isinstance(body[0], ast.Return)):
                bound = _bind_args(h, call, lead)
                if bound is not None and all(_simple_arg(a) for a in bound.values()):
                    counter[0] += 1
                    suffix = "__in%d" % counter[0]
                    params = set(bound)
                    local = {n.id for n in _names(h, ast.Store)} - params
                    ren = {n: ast.Name(id=n + suffix, ctx=ast.Load()) for n in local}
                    new = []
                    assigned_params = {n.id for n in _names(h, ast.Store)} & params
                    if assigned_params:
                        out.append(st)
                        continue
                    for hs in body:
                        hs = copy.deepcopy(hs)
                        for n in ast.walk(hs):
                            if isinstance(n, ast.Name) and n.id in local:
                                n.id = n.id + suffix
                        hs = _Subst(bound).visit(hs)
                        new.append(hs)
                    last = new[-1] if new else None
                    if isinstance(last, ast.Return):
                        new.pop()
                        val = last.value if last.value is not None else ast.Constant(value=None)
                        if kind == "assign":
                            new.append(ast.Assign(targets=st.targets, value=val, lineno=st.lineno, col_offset=0))
                        elif kind == "return":
                            new.append(ast.Return(value=val, lineno=st.lineno, col_offset=0))
                        elif _has_call(val):
                            new.append(ast.Expr(value=val, lineno=st.lineno, col_offset=0))
                    elif kind == "assign":
                        new.append(ast.Assign(targets=st.targets, value=ast.Constant(value=None), lineno=st.lineno, col_offset=0))
                    elif kind == "return":
                        new.append(ast.Return(value=ast.Constant(value=None), lineno=st.lineno, col_offset=0))
                    out.extend(new)
                    changed = True
                    continue
        out.append(st)
    return out, changed


# --------------------------------------------------------------------------- T4 expressions
_FLIP = {ast.Gt: ast.Lt, ast.GtE: ast.LtE}
_NEGSAFE = {ast.Eq: ast.NotEq, ast.NotEq: ast.Eq, ast.Is: ast.IsNot, ast.IsNot: ast.Is, ast.In: ast.NotIn,
            ast.NotIn: ast.In}


def _neg(e):
    """Negation pushed inwards where that is exact."""
    if isinstance(e, ast.UnaryOp) and isinstance(e.op, ast.Not):
        return e.operand if _is_boolish(e.operand) else ast.UnaryOp(op=ast.Not(), operand=e)
    if isinstance(e, ast.BoolOp):
        op = ast.Or() if isinstance(e.op, ast.And) else ast.And()
        return ast.BoolOp(op=op, values=[_neg(v) for v in e.values])
    if isinstance(e, ast.Compare) and len(e.ops) == 1 and type(e.ops[0]) in _NEGSAFE:
        return ast.Compare(left=e.left, ops=[_NEGSAFE[type(e.ops[0])]()], comparators=e.comparators)
    return ast.UnaryOp(op=ast.Not(), operand=e)


def _is_boolish(e):
    return isinstance(e, (ast.Compare, ast.BoolOp)) or (isinstance(e, ast.UnaryOp) and isinstance(e.op, ast.Not)) \
        or (isinstance(e, ast.Call) and isinstance(e.func, ast.Name) and e.func.id in ("isinstance", "callable", "hasattr", "any", "all"))


_RF_CACHE = {}
_HOIST = [0]


class _Expr(ast.NodeTransformer):
    def __init__(self, tuples=(), root=None):
        self.tuples = set(tuples)       # names known to be tuples (the *args parameter)
        self.root = root

    def _len_of_tuple(self, e):
        return isinstance(e, ast.Call) and isinstance(e.func, ast.Name) and e.func.id == "len" and len(e.args) == 1 \
            and isinstance(e.args[0], ast.Name) and e.args[0].id in self.tuples

    def _truth(self, e):
        """test-position operand: a bare *args name means "not empty" """
        if isinstance(e, ast.Name) and e.id in self.tuples:
            return ast.Compare(left=ast.Call(func=ast.Name(id="len", ctx=ast.Load()), args=[e], keywords=[]),
                               ops=[ast.NotEq()], comparators=[ast.Constant(value=0)])
        return e

    def visit_If(self, node):
        node.test = self._truth(node.test)
        self.generic_visit(node)
        return node

    def visit_While(self, node):
        node.test = self._truth(node.test)
        self.generic_visit(node)
        return node

    def visit_BoolOp(self, node):
        node.values = [self._truth(v) for v in node.values]
        self.generic_visit(node)
        # (a and (b and c)) == (a and b and c): same short circuit
        flat = []
        for v in node.values:
            if isinstance(v, ast.BoolOp) and type(v.op) is type(node.op):
                flat.extend(v.values)
            else:
                flat.append(v)
        node.values = flat
        return node

    def visit_UnaryOp(self, node):
        if isinstance(node.op, ast.Not) and isinstance(node.operand, ast.Name) and node.operand.id in self.tuples:
            return ast.Compare(left=ast.Call(func=ast.Name(id="len", ctx=ast.Load()), args=[node.operand], keywords=[]),
                               ops=[ast.Eq()], comparators=[ast.Constant(value=0)])
        self.generic_visit(node)
        if isinstance(node.op, ast.Not):
            inner = node.operand
            if isinstance(inner, (ast.BoolOp,)) or (isinstance(inner, ast.Compare) and len(inner.ops) == 1
                                                     and type(inner.ops[0]) in _NEGSAFE) \
                    or (isinstance(inner, ast.UnaryOp) and isinstance(inner.op, ast.Not) and _is_boolish(inner.operand)):
                return self.visit(_neg(inner)) if isinstance(_neg(inner), ast.BoolOp) else _neg(inner)
        return self._arith(node)

    def visit_Compare(self, node):
        return self._int_cmp(self._visit_Compare0(node))

    def _int_cmp(self, node):
        """comparison of two int-valued expressions: constant on one side, the rest (no constant term, leading coefficient
        positive) on the other - ``v < n`` and ``0 < n - v`` and ``1 <= n - v`` are not merged across operators, but
        ``1 < la`` and ``0 < la - 1`` are one test"""
        if not (isinstance(node, ast.Compare) and len(node.ops) == 1 and isinstance(node.ops[0], (ast.Lt, ast.LtE, ast.Eq, ast.NotEq))):
            return node

        def as_rf(e):
            if isinstance(e, ast.Constant) and type(e.value) is int:
                return RF.const(e.value)
            if isinstance(e, ast.Constant) and isinstance(e.value, str) and e.value in _RF_CACHE:
                return _RF_CACHE[e.value]
            if isinstance(e, ast.Name) and _int_typed(e, self.root):
                return RF.sym(e.id)
            return None
        l, r = as_rf(node.left), as_rf(node.comparators[0])
        if l is None or r is None:
            return node
        d = (r - l).simplified() if hasattr(r - l, "simplified") else r - l
        d = r - l
        if d.d != {(): Fraction(1)}:
            return node
        k = d.n.get((), Fraction(0))
        P = {m: c for m, c in d.n.items() if m != ()}
        if not P or k.denominator != 1 or any(c.denominator != 1 for c in P.values()):
            return node
        first = sorted(P)[0]
        op = node.ops[0]

        def emit(poly):
            if len(poly) == 1:
                (m, c), = poly.items()
                if c == 1 and len(m) == 1 and m[0][1] == 1:
                    return ast.Name(id=m[0][0], ctx=ast.Load())
            rf = RF(dict(poly))
            key = "<RF %s>" % rf.key()
            _RF_CACHE[key] = rf
            return ast.Constant(value=key)
        if P[first] > 0:
            # -k <op> P
            return ast.Compare(left=ast.Constant(value=int(-k)), ops=[op], comparators=[emit(P)])
        negP = {m: -c for m, c in P.items()}
        if isinstance(op, (ast.Eq, ast.NotEq)):
            return ast.Compare(left=ast.Constant(value=int(k)), ops=[op], comparators=[emit(negP)])
        # -k < P   <=>   -P < k
        return ast.Compare(left=emit(negP), ops=[op], comparators=[ast.Constant(value=int(k))])

    def _visit_Compare0(self, node):
        self.generic_visit(node)
        if len(node.ops) == 1:
            l, r, op = node.left, node.comparators[0], node.ops[0]
            zero = lambda e: isinstance(e, ast.Constant) and type(e.value) is int and e.value == 0
            one = lambda e: isinstance(e, ast.Constant) and type(e.value) is int and e.value == 1
            islen = lambda e: isinstance(e, ast.Call) and isinstance(e.func, ast.Name) and e.func.id == "len" and len(e.args) == 1
            empty = None
            # len() is a non-negative int: all spellings of "empty" / "not empty" are one test
            if islen(l):
                if (isinstance(op, ast.Eq) and zero(r)) or (isinstance(op, ast.Lt) and one(r)) or (isinstance(op, ast.LtE) and zero(r)):
                    empty = (l, True)
                elif (isinstance(op, (ast.NotEq, ast.Gt)) and zero(r)) or (isinstance(op, ast.GtE) and one(r)):
                    empty = (l, False)
            elif islen(r):
                if (isinstance(op, ast.Eq) and zero(l)) or (isinstance(op, ast.Gt) and one(l)) or (isinstance(op, ast.GtE) and zero(l)):
                    empty = (r, True)
                elif (isinstance(op, (ast.NotEq, ast.Lt)) and zero(l)) or (isinstance(op, ast.LtE) and one(l)):
                    empty = (r, False)
            if empty is not None:
                return ast.Compare(left=empty[0], ops=[ast.Eq() if empty[1] else ast.NotEq()],
                                   comparators=[ast.Constant(value=0)])
        if len(node.ops) == 1 and type(node.ops[0]) in _FLIP:
            return ast.Compare(left=node.comparators[0], ops=[_FLIP[type(node.ops[0])]()], comparators=[node.left])
        if len(node.ops) == 1 and isinstance(node.ops[0], (ast.Eq, ast.NotEq)):
            l, r = ast.dump(node.left), ast.dump(node.comparators[0])
            if l > r and not _has_call(node):
                return ast.Compare(left=node.comparators[0], ops=node.ops, comparators=[node.left])
        return node

    def visit_BinOp(self, node):
        self.generic_visit(node)
        # c OP (A if t else B)  ==  (c OP A) if t else (c OP B)   (a literal operand has no effect and no type of its own
        # to dispatch on before the test is evaluated); likewise with the literal on the right
        lit = lambda e: isinstance(e, ast.Constant) and type(e.value) in (int, float)
        if lit(node.left) and isinstance(node.right, ast.IfExp):
            r = node.right
            return self.visit(ast.IfExp(test=r.test, body=ast.BinOp(left=node.left, op=node.op, right=r.body),
                                        orelse=ast.BinOp(left=_copy_expr(node.left), op=node.op, right=r.orelse)))
        if lit(node.right) and isinstance(node.left, ast.IfExp):
            l = node.left
            return self.visit(ast.IfExp(test=l.test, body=ast.BinOp(left=l.body, op=node.op, right=node.right),
                                        orelse=ast.BinOp(left=l.orelse, op=node.op, right=_copy_expr(node.right))))
        # c + (E - c) / (E - c) + c  ==  E   for an int-typed E (len(..), int(..), counters)
        if isinstance(node.op, ast.Add):
            for a, b in ((node.left, node.right), (node.right, node.left)):
                if lit(a) and type(a.value) is int and isinstance(b, ast.BinOp) and isinstance(b.op, ast.Sub) and lit(b.right) \
                        and type(b.right.value) is int and b.right.value == a.value and _int_typed(b.left, self.root):
                    return b.left
        return self._arith(node)

    def _arith(self, node):
        """Arithmetic is only re-arranged where that is exact for every operand type this library overloads
        operators for (Stream, Poly, ZFilter, str, list): full rational normal form when every name in the expression
        is certainly an int; otherwise just (a) a numeric literal factor / addend written first, (b) division by a
        power of two written as multiplication."""
        if not isinstance(node, ast.BinOp):
            return node
        num = lambda e: isinstance(e, ast.Constant) and type(e.value) in (int, float) 
        # sub-expressions already in normal form take part through their value
        rf_env = {}
        if any(isinstance(n, ast.Constant) and isinstance(n.value, str) and n.value in _RF_CACHE for n in ast.walk(node)):
            class _R(ast.NodeTransformer):
                def visit_Constant(self_, n):
                    if isinstance(n.value, str) and n.value in _RF_CACHE:
                        nm = "rf__%d" % len(rf_env)
                        rf_env[nm] = _RF_CACHE[n.value]
                        return ast.Name(id=nm, ctx=ast.Load())
                    return n
            node_eval = _R().visit(copy.deepcopy(node))
        else:
            node_eval = node
        names = [n for n in ast.walk(node_eval) if isinstance(n, ast.Name) and n.id not in rf_env]
        simple = not _has_call(node) and not any(isinstance(n, (ast.Subscript, ast.IfExp, ast.Compare, ast.BoolOp, ast.List,
                                                               ast.Tuple, ast.Dict, ast.JoinedStr, ast.Lambda, ast.Attribute))
                                                 for n in ast.walk(node)) \
            and not any(isinstance(n, ast.Constant) and type(n.value) not in (int, float) for n in ast.walk(node_eval)) \
            and all(isinstance(n.op, (ast.Add, ast.Sub, ast.Mult, ast.Div, ast.Pow)) for n in ast.walk(node)
                    if isinstance(n, ast.BinOp))
        if simple and all(_int_typed(n, self.root) for n in names):
            try:
                rf = Evaluator(dict(rf_env)).ev(node_eval)
                try:
                    fr = rf.as_fraction()
                    if fr.denominator == 1:
                        return ast.Constant(value=int(fr))
                except Inconclusive:
                    pass
                _RF_CACHE["<RF %s>" % rf.key()] = rf
                return ast.Constant(value="<RF %s>" % rf.key())
            except (Inconclusive, ZeroDivisionError):
                return node
        if isinstance(node.op, ast.Div) and num(node.right) and node.right.value != 0:
            v = float(node.right.value)
            m, e = __import__("math").frexp(v)
            if m in (0.5, -0.5):     # a power of two: x / v == x * (1 / v) exactly
                node = ast.BinOp(left=ast.Constant(value=1.0 / v), op=ast.Mult(), right=node.left)
        if isinstance(node.op, (ast.Mult, ast.Add)) and num(node.right) and not num(node.left):
            node = ast.BinOp(left=node.right, op=node.op, right=node.left)
        if isinstance(node.op, ast.Mult) and num(node.left) and type(node.left.value) is int \
                and float(node.left.value) == node.left.value and False:
            pass
        return node

    COMPAT = {"xmap": "map", "xzip": "zip", "xrange": "range", "xfilter": "filter"}

    def visit_Name(self, node):
        if isinstance(node.ctx, ast.Load) and node.id in self.COMPAT:
            return ast.Name(id=self.COMPAT[node.id], ctx=ast.Load())
        return node

    def visit_Call(self, node):
        self.generic_visit(node)
        # starmap(f, zip(A, B, ..))  ==  map(f, A, B, ..)
        if ast.unparse(node.func) in ("it.starmap", "starmap", "itertools.starmap") and len(node.args) == 2 \
                and not node.keywords and isinstance(node.args[1], ast.Call) and isinstance(node.args[1].func, ast.Name) \
                and node.args[1].func.id == "zip" and not node.args[1].keywords and node.args[1].args:
            return ast.Call(func=ast.Name(id="map", ctx=ast.Load()), args=[node.args[0]] + list(node.args[1].args), keywords=[])
        if isinstance(node.func, ast.Lambda):
            from .inline import beta_reduce
            red = beta_reduce(node)
            if red is not node:
                return self.visit(red)
        # "literal {a}".format(a=x, b=y): str.format ignores the keywords its template does not name (y a plain read)
        if isinstance(node.func, ast.Attribute) and node.func.attr == "format" and isinstance(node.func.value, ast.Constant) \
                and isinstance(node.func.value.value, str) and node.keywords and all(k.arg is not None for k in node.keywords):
            try:
                import string as _string
                used = set()
                for _lit, fld, spec, _conv in _string.Formatter().parse(node.func.value.value):
                    for piece in (fld, spec):
                        if piece:
                            for _l2, f2, _s2, _c2 in _string.Formatter().parse(piece if piece is spec else "{%s}" % piece):
                                if f2:
                                    used.add(f2.split(".")[0].split("[")[0])
                keep = [k for k in node.keywords if k.arg in used or not isinstance(k.value, (ast.Name, ast.Constant))]
                if len(keep) != len(node.keywords):
                    node.keywords = keep
            except ValueError:
                pass
        if isinstance(node.func, ast.Name) and node.func.id == "tuple" and not node.args and not node.keywords:
            return ast.Tuple(elts=[], ctx=ast.Load())
        if isinstance(node.func, ast.Name) and node.func.id == "vars" and len(node.args) == 1 and not node.keywords:
            return ast.Attribute(value=node.args[0], attr="__dict__", ctx=ast.Load())
        # reversed(range(a, b))  ==  range(b - 1, a - 1, -1)
        if isinstance(node.func, ast.Name) and node.func.id == "reversed" and len(node.args) == 1 and not node.keywords \
                and isinstance(node.args[0], ast.Call) and isinstance(node.args[0].func, ast.Name) \
                and node.args[0].func.id in ("range", "xrange") and 1 <= len(node.args[0].args) <= 2 \
                and not node.args[0].keywords:
            ra = node.args[0].args
            lo = ra[0] if len(ra) == 2 else ast.Constant(value=0)
            hi = ra[-1]
            mk = lambda e: self.visit(ast.BinOp(left=e, op=ast.Sub(), right=ast.Constant(value=1)))
            return ast.Call(func=ast.Name(id="range", ctx=ast.Load()),
                            args=[mk(hi), mk(lo), ast.UnaryOp(op=ast.USub(), operand=ast.Constant(value=1))], keywords=[])
        if isinstance(node.func, ast.Name) and node.func.id == "list" and len(node.args) == 1 and not node.keywords \
                and isinstance(node.args[0], ast.GeneratorExp):
            return self.visit(ast.ListComp(elt=node.args[0].elt, generators=node.args[0].generators))
        if isinstance(node.func, ast.Name) and node.func.id in ("tuple", "sorted", "set", "frozenset", "max", "min") \
                and len(node.args) == 1 and not node.keywords and isinstance(node.args[0], ast.GeneratorExp):
            # these consume their argument completely, in order: a generator and the list of its items are alike
            node.args[0] = self.visit(ast.ListComp(elt=node.args[0].elt, generators=node.args[0].generators))
            return node
        if isinstance(node.func, ast.Name) and node.func.id in _CTX.get("list_classes", ()) and len(node.args) == 1 \
                and not node.keywords and isinstance(node.args[0], ast.GeneratorExp):
            # a list subclass built from a generator consumes it at once, like from the list of its items
            node.args[0] = self.visit(ast.ListComp(elt=node.args[0].elt, generators=node.args[0].generators))
            return node
        if isinstance(node.func, ast.Name) and node.func.id == "getattr" and len(node.args) == 2 and not node.keywords \
                and isinstance(node.args[1], ast.Constant) and isinstance(node.args[1].value, str) \
                and node.args[1].value.isidentifier():
            return ast.Attribute(value=node.args[0], attr=node.args[1].value, ctx=ast.Load())
        if isinstance(node.func, ast.Name) and node.func.id == "dict" and not node.args and node.keywords \
                and all(k.arg is not None for k in node.keywords):
            return ast.Dict(keys=[ast.Constant(value=k.arg) for k in node.keywords], values=[k.value for k in node.keywords])
        return node

    def visit_Lambda(self, node):
        self.generic_visit(node)
        a = node.args
        if not (a.vararg or a.kwarg or a.kwonlyargs or a.defaults or a.posonlyargs) and isinstance(node.body, ast.Call) \
                and isinstance(node.body.func, ast.Name) and not node.body.keywords \
                and [x.arg for x in a.args] == [x.id if isinstance(x, ast.Name) else None for x in node.body.args] \
                and node.body.func.id not in [x.arg for x in a.args]:
            return node.body.func
        return node

    def visit_Assign(self, node):
        self.generic_visit(node)
        # x[a:b] = (generator)  ==  x[a:b] = [list]: a slice assignment materialises its right-hand side first
        if len(node.targets) == 1 and isinstance(node.targets[0], ast.Subscript) and isinstance(node.targets[0].slice, ast.Slice) \
                and isinstance(node.value, ast.GeneratorExp):
            node.value = self.visit(ast.ListComp(elt=node.value.elt, generators=node.value.generators))
        return node

    def visit_ListComp(self, node):
        self.generic_visit(node)
        if len(node.generators) == 1 and not node.generators[0].ifs and isinstance(node.elt, (ast.Name, ast.Constant)):
            g = node.generators[0]
            tn = {n.id for n in ast.walk(g.target) if isinstance(n, ast.Name)}
            if isinstance(g.iter, ast.Call) and isinstance(g.iter.func, ast.Name) and g.iter.func.id in ("range", "xrange") \
                    and len(g.iter.args) == 1 and not (isinstance(node.elt, ast.Name) and node.elt.id in tn):
                return ast.BinOp(left=ast.List(elts=[node.elt], ctx=ast.Load()), op=ast.Mult(), right=g.iter.args[0])
        return node

    def visit_IfExp(self, node):
        node.test = self._truth(node.test)
        self.generic_visit(node)
        if isinstance(node.test, ast.UnaryOp) and isinstance(node.test.op, ast.Not):
            return ast.IfExp(test=node.test.operand, body=node.orelse, orelse=node.body)
        if _neg_cmp(node.test) is not None:
            return ast.IfExp(test=_neg_cmp(node.test), body=node.orelse, orelse=node.body)
        t = node.test
        if isinstance(t, ast.Compare) and len(t.ops) == 1 and isinstance(t.ops[0], (ast.LtE, ast.GtE)) and self.root is not None \
                and _int_typed(t.left, self.root) and _int_typed(t.comparators[0], self.root):
            # on ints ``not (a <= b)`` is ``a > b``: keep the strict form (as for if statements)
            neg = ast.Compare(left=t.left, ops=[_ORD_NEG[type(t.ops[0])]()], comparators=t.comparators)
            return self.visit(ast.IfExp(test=neg, body=node.orelse, orelse=node.body))
        if isinstance(node.body, ast.IfExp) and ast.dump(node.body.orelse) == ast.dump(node.orelse) \
                and not _has_call(node.orelse):
            return ast.IfExp(test=ast.BoolOp(op=ast.And(), values=[node.test, node.body.test]), body=node.body.body,
                             orelse=node.orelse)
        return node

    def visit_For(self, node):
        self.generic_visit(node)
        if isinstance(node.iter, ast.List):
            node.iter = ast.Tuple(elts=node.iter.elts, ctx=ast.Load())
        return node

    def visit_comprehension(self, node):
        self.generic_visit(node)
        if isinstance(node.iter, ast.List):
            node.iter = ast.Tuple(elts=node.iter.elts, ctx=ast.Load())
        return node


# --------------------------------------------------------------------------- T2 / T3 / T5 statements
TOTAL_CALLS = {"isinstance", "callable", "hasattr", "isinf", "isnan"}


def _is_none_return(st):
    return isinstance(st, ast.Return) and (st.value is None or (isinstance(st.value, ast.Constant) and st.value.value is None))


class _Stop(Exception):
    pass


def _loaded_first(node, v):
    """True when local ``v`` is read before anything that can have an effect while ``node`` (a statement) is evaluated.
    Reads of plain names, literals and attribute chains rooted at a plain name count as effect-free."""
    result = [False]

    def effect():
        raise _Stop()

    def ev(n):
        if n is None or isinstance(n, ast.Constant):
            return
        if isinstance(n, ast.Name):
            if n.id == v and isinstance(n.ctx, ast.Load):
                result[0] = True
                raise _Stop()
            return
        if isinstance(n, ast.Attribute):
            ev(n.value)
            base = n.value
            while isinstance(base, ast.Attribute):
                base = base.value
            if not isinstance(base, ast.Name):
                effect()
            return
        if isinstance(n, ast.Call):
            ev(n.func)
            for a_ in n.args:
                ev(a_)
            for k in n.keywords:
                ev(k.value)
            effect()
        if isinstance(n, ast.Starred):
            ev(n.value)
            return
        if isinstance(n, (ast.Tuple, ast.List, ast.Set)):
            for e in n.elts:
                ev(e)
            return
        if isinstance(n, ast.BinOp):
            ev(n.left)
            ev(n.right)
            effect()
        if isinstance(n, ast.UnaryOp):
            ev(n.operand)
            effect()
        if isinstance(n, ast.Compare):
            ev(n.left)
            ev(n.comparators[0])
            effect()
        if isinstance(n, ast.BoolOp):
            ev(n.values[0])
            effect()
        if isinstance(n, ast.IfExp):
            ev(n.test)
            effect()
        if isinstance(n, ast.Subscript):
            ev(n.value)
            ev(n.slice)
            effect()
        if isinstance(n, ast.Slice):
            ev(n.lower)
            ev(n.upper)
            ev(n.step)
            return
        if isinstance(n, (ast.GeneratorExp, ast.ListComp, ast.SetComp, ast.DictComp)):
            ev(n.generators[0].iter)
            effect()
        if isinstance(n, (ast.Yield, ast.YieldFrom, ast.Await)):
            ev(n.value)
            effect()
        if isinstance(n, (ast.Expr, ast.Return)):
            ev(n.value)
            effect()
        if isinstance(n, ast.Assign):
            ev(n.value)
            effect()
        if isinstance(n, ast.AugAssign) and isinstance(n.target, ast.Name):
            if n.target.id == v:
                result[0] = True
                raise _Stop()
            ev(n.value)
            effect()
        if isinstance(n, ast.If):
            ev(n.test)
            effect()
        if isinstance(n, ast.For):
            ev(n.iter)
            effect()
        if isinstance(n, ast.keyword):
            ev(n.value)
            return
        effect()
    try:
        ev(node)
    except _Stop:
        pass
    return result[0]


def _stored_names(node):
    out = set()
    for n in ast.walk(node):
        if isinstance(n, ast.Name) and isinstance(n.ctx, (ast.Store, ast.Del)):
            out.add(n.id)
        elif isinstance(n, ast.arg):
            out.add(n.arg)
    return out


def _pure_value(e):
    """call-free arithmetic over plain names and constants"""
    return all(isinstance(n, (ast.Name, ast.Constant, ast.BinOp, ast.UnaryOp, ast.operator, ast.unaryop, ast.Load))
               for n in ast.walk(e)) and not isinstance(e, (ast.Name, ast.Constant))


def _movable_value(e):
    """total, effect-free, reads plain names only: names, constants, ``is`` / ``is not`` None tests, ``not``, conditional
    expressions and list / tuple / dict / set displays of such (a display makes a new object: with a single use there
    is nobody to share it with)"""
    if isinstance(e, (ast.Name, ast.Constant)):
        return True
    if isinstance(e, ast.UnaryOp) and isinstance(e.op, ast.Not):
        o = e.operand
        return isinstance(o, ast.Compare) and _movable_value(o)      # `not x` on a plain name may call __bool__
    if isinstance(e, ast.Compare) and len(e.ops) == 1 and isinstance(e.ops[0], (ast.Is, ast.IsNot)):
        return _movable_value(e.left) and _movable_value(e.comparators[0])
    if isinstance(e, ast.IfExp):
        t = e.test
        while isinstance(t, ast.UnaryOp) and isinstance(t.op, ast.Not):
            t = t.operand
        test_total = isinstance(t, ast.Compare) and len(t.ops) == 1 and isinstance(t.ops[0], (ast.Is, ast.IsNot)) \
            and _movable_value(t)          # the truth value of a plain name may call __bool__ (a Stream raises)
        return test_total and _movable_value(e.body) and _movable_value(e.orelse)
    if isinstance(e, (ast.Tuple, ast.List, ast.Set)):
        return all(_movable_value(x) for x in e.elts)
    if isinstance(e, ast.Dict):
        return all(k is not None and isinstance(k, ast.Constant) for k in e.keys) and all(_movable_value(x) for x in e.values)
    if isinstance(e, ast.Call) and isinstance(e.func, ast.Name) and e.func.id in ("OrderedDict", "dict", "list", "set", "deque") \
            and not e.args and not e.keywords:
        return True         # a new empty container
    return False


def _total_flag(e, fn):
    """an expression that cannot raise, has no effect and depends only on the identity / type of plain names:
    ``x is None``, ``x is not None``, ``isinstance(x, T)``, ``len(<*args tuple>)``, and ``not`` / ``and`` / ``or`` of
    such - the flags a maintainer computes once (``has_low = low is not None``) and tests later"""
    if isinstance(e, ast.UnaryOp) and isinstance(e.op, ast.Not):
        return _total_flag(e.operand, fn)
    if isinstance(e, ast.BoolOp):
        return all(_total_flag(v, fn) for v in e.values)
    if isinstance(e, ast.Compare) and len(e.ops) == 1 and isinstance(e.ops[0], (ast.Is, ast.IsNot)):
        l, r = e.left, e.comparators[0]
        return (isinstance(l, ast.Name) and isinstance(r, ast.Constant) and r.value is None) or \
            (isinstance(r, ast.Name) and isinstance(l, ast.Constant) and l.value is None)
    if isinstance(e, ast.Call) and isinstance(e.func, ast.Name) and not e.keywords:
        if e.func.id == "isinstance" and len(e.args) == 2 and isinstance(e.args[0], ast.Name):
            t = e.args[1]
            ok_t = lambda x: isinstance(x, (ast.Name, ast.Attribute))
            return ok_t(t) or (isinstance(t, ast.Tuple) and all(ok_t(x) for x in t.elts))
        if e.func.id == "len" and len(e.args) == 1 and isinstance(e.args[0], ast.Name) \
                and fn.args.vararg is not None and e.args[0].id == fn.args.vararg.arg:
            return True
    return False


def _copy_expr(e):
    return ast.parse(ast.unparse(e), mode="eval").body


def _blocks_of(fn):
    """every statement list of the function (nested functions excluded)"""
    out = []
    stack = [fn]
    while stack:
        n = stack.pop()
        for fld in ("body", "orelse", "finalbody"):
            b = getattr(n, fld, None)
            if isinstance(b, list) and b and isinstance(b[0], ast.stmt):
                out.append(b)
                for st in b:
                    if not isinstance(st, FuncTypes + (ast.ClassDef,)):
                        stack.append(st)
        for h in getattr(n, "handlers", []) or []:
            out.append(h.body)
            stack.extend(h.body)
    return out


def _inline_accessors(fn):
    """``x, = args`` / ``x = args[0]`` on the *args tuple (immutable, cannot be rebound without a store we would see):
    the name is replaced by ``args[0]`` in the statements that follow it in its block, when it is used nowhere else"""
    va = fn.args.vararg.arg if fn.args.vararg is not None else None
    if va is None:
        return False
    stored = {}
    for n in ast.walk(fn):
        if isinstance(n, ast.Name) and isinstance(n.ctx, (ast.Store, ast.Del)):
            stored[n.id] = stored.get(n.id, 0) + 1
    if stored.get(va, 0):
        return False
    changed = False
    for blk in _blocks_of(fn):
        i = 0
        while i < len(blk):
            st = blk[i]
            name = idx = None
            if isinstance(st, ast.Assign) and len(st.targets) == 1:
                t, v = st.targets[0], st.value
                if isinstance(t, ast.Tuple) and len(t.elts) == 1 and isinstance(t.elts[0], ast.Name) and isinstance(v, ast.Name) \
                        and v.id == va:
                    name, idx = t.elts[0].id, 0
                elif isinstance(t, ast.Name) and isinstance(v, ast.Subscript) and isinstance(v.value, ast.Name) and v.value.id == va \
                        and isinstance(v.slice, ast.Constant) and isinstance(v.slice.value, int):
                    name, idx = t.id, v.slice.value
                elif isinstance(t, ast.Name) and isinstance(v, ast.Subscript) and isinstance(v.value, ast.Name) and v.value.id == va \
                        and isinstance(v.slice, ast.Slice) and all(
                            b_ is None or (isinstance(b_, ast.Constant) and isinstance(b_.value, int))
                            for b_ in (v.slice.lower, v.slice.upper, v.slice.step)):
                    name, idx = t.id, v.slice            # rest = args[1:]: a slice of an immutable tuple
            if name is not None and stored.get(name, 0) == 1 and (name not in _captured_names(fn) or isinstance(idx, ast.Slice)):
                after = sum(_count_loads(s_, name) for s_ in blk[i + 1:])
                total = _count_loads(fn, name)
                # the one-element unpacking also checks the length: only where the block is guarded by it the
                # substitution is exact - the rewrite is used for views read by rules, not for equivalence proofs
                if after == total:
                    repl = ast.Subscript(value=ast.Name(id=va, ctx=ast.Load()),
                                         slice=idx if isinstance(idx, ast.Slice) else ast.Constant(value=idx), ctx=ast.Load())
                    for j in range(i + 1, len(blk)):
                        blk[j] = _Subst({name: repl}).visit(blk[j])
                    del blk[i]
                    changed = True
                    continue
            i += 1
    return changed


_PURE_BUILTINS = {"isinstance", "len", "callable", "hasattr", "type", "issubclass", "id", "abs", "bool", "int", "float", "str", "repr"}


_LENIENT = [False]
_NON_WRITING = {"thub", "iteritems", "itervalues", "iterkeys", "tuple", "list", "sorted", "reversed", "enumerate", "zip",
                "xzip", "range", "xrange", "min", "max", "sum", "OrderedDict", "dict", "set", "frozenset"}


def _clean_expr(e):
    """evaluating it cannot store into an attribute or an item: only whitelisted builtins are called.  Views
    (``_LENIENT``): also constructors of fresh containers, ``thub`` and eager comprehensions of such."""
    ok_calls = _PURE_BUILTINS | _NON_WRITING if _LENIENT[0] else _PURE_BUILTINS
    lazy = (ast.GeneratorExp,) if _LENIENT[0] else (ast.GeneratorExp, ast.ListComp, ast.SetComp, ast.DictComp)
    for n in ast.walk(e):
        if isinstance(n, ast.Call) and not (isinstance(n.func, ast.Name) and n.func.id in ok_calls):
            return False
        if isinstance(n, (ast.Yield, ast.YieldFrom, ast.Await, ast.NamedExpr, ast.Lambda) + lazy):
            return False
    return True


def _clean_stmt(st):
    if isinstance(st, ast.Assign):
        return all(isinstance(t, ast.Name) for t in st.targets) and _clean_expr(st.value)
    if isinstance(st, ast.Expr):
        return isinstance(st.value, ast.Constant)
    if isinstance(st, ast.Pass):
        return True
    if isinstance(st, ast.If):
        return _clean_expr(st.test) and all(_clean_stmt(x) for x in st.body + st.orelse)
    return False


def _exits_function(block):
    if not block:
        return False
    last = block[-1]
    if isinstance(last, (ast.Return, ast.Raise)):
        return True
    if isinstance(last, ast.If) and last.orelse:
        return _exits_function(last.body) and _exits_function(last.orelse)
    return False


def _skippable(st):
    """a statement after which, on the path that goes on, no attribute / item has been written"""
    if _clean_stmt(st):
        return True
    if isinstance(st, ast.If) and _clean_expr(st.test):
        ok_body = _exits_function(st.body) or all(_clean_stmt(x) for x in st.body)
        ok_else = (not st.orelse) or _exits_function(st.orelse) or all(_clean_stmt(x) for x in st.orelse)
        return ok_body and ok_else
    return False


def _inline_super_aliases(fn):
    """``p = super(C, self)`` (or ``super()``) bound once: the proxy depends on nothing that changes, every use of ``p`` is
    the call written out again"""
    stores = {}
    for n in ast.walk(fn):
        if isinstance(n, ast.Name) and isinstance(n.ctx, (ast.Store, ast.Del)):
            stores[n.id] = stores.get(n.id, 0) + 1
    changed = False
    for blk in _blocks_of(fn):
        for i, st in enumerate(list(blk)):
            if isinstance(st, ast.Assign) and len(st.targets) == 1 and isinstance(st.targets[0], ast.Name) \
                    and isinstance(st.value, ast.Call) and isinstance(st.value.func, ast.Name) and st.value.func.id == "super" \
                    and not st.value.keywords and all(isinstance(a, ast.Name) for a in st.value.args) \
                    and stores.get(st.targets[0].id) == 1 and not any(stores.get(a.id) for a in st.value.args) \
                    and "super" not in stores and st.targets[0].id not in _captured_names(fn):
                v = st.targets[0].id
                # every use is an attribute access on it, later in this block (nested blocks included)
                uses = [n for n in ast.walk(fn) if isinstance(n, ast.Name) and n.id == v and isinstance(n.ctx, ast.Load)]
                later = {id(n) for s_ in blk[blk.index(st) + 1:] for n in ast.walk(s_)}
                if uses and all(id(u) in later for u in uses) and (st.value.args or not any(
                        isinstance(n, FuncTypes + (ast.Lambda,)) and n is not fn for n in ast.walk(fn))):
                    for s_ in blk[blk.index(st) + 1:]:
                        _Subst({v: st.value}).visit(s_)
                    blk.remove(st)
                    changed = True
    return changed


def _inline_read_aliases(fn, strict=False):
    """``v = self.attr[0]`` (a plain read chain, assigned once at the top level of the body): every use of ``v`` that is
    reached from the assignment without any statement that could write an attribute or an item is replaced by the read
    itself; when all uses are, the assignment goes.  ``strict`` (canonical forms): the first use must not come after
    anything that can raise, so that the read fails where it failed."""
    def read_chain(e):
        if isinstance(e, ast.Call) and isinstance(e.func, ast.Name) and e.func.id == "len" and len(e.args) == 1 and not e.keywords:
            e = e.args[0]            # the size of a container that nothing on the way writes to
        while isinstance(e, (ast.Attribute, ast.Subscript)):
            if isinstance(e, ast.Subscript) and not isinstance(e.slice, ast.Constant):
                return False
            e = e.value
        return isinstance(e, ast.Name)
    stored = {}
    for n in ast.walk(fn):
        if isinstance(n, ast.Name) and isinstance(n.ctx, (ast.Store, ast.Del)):
            stored[n.id] = stored.get(n.id, 0) + 1
    params = _scope_params(fn)
    body = fn.body
    changed = False
    _LENIENT[0] = not strict
    try:
        return _inline_read_aliases_1(fn, strict, read_chain, stored, params, body)
    finally:
        _LENIENT[0] = False


def _inline_read_aliases_1(fn, strict, read_chain, stored, params, body):
    changed = False
    i = 0
    while i < len(body):
        st = body[i]
        if isinstance(st, ast.Assign) and len(st.targets) == 1 and isinstance(st.targets[0], ast.Name) \
                and isinstance(st.value, (ast.Attribute, ast.Subscript, ast.Call)) and read_chain(st.value):
            v = st.targets[0].id
            root = st.value.args[0] if isinstance(st.value, ast.Call) else st.value
            while isinstance(root, (ast.Attribute, ast.Subscript)):
                root = root.value
            root_ok = (root.id in params or root.id == "self") and stored.get(root.id, 0) == 0
            if not root_ok and stored.get(root.id, 0) >= 1 and root.id not in _captured_names(fn):
                # a local whose every binding comes before the read (at this level or in the arms of an ``if``)
                before = sum(1 for s_ in body[:i] for n_ in ast.walk(s_) if isinstance(n_, ast.Name) and n_.id == root.id
                             and isinstance(n_.ctx, (ast.Store, ast.Del)))
                root_ok = before == stored.get(root.id, 0) and not any(
                    isinstance(s_, (ast.For, ast.While)) for s_ in body[:i] if any(
                        isinstance(n_, ast.Name) and n_.id == root.id and isinstance(n_.ctx, ast.Store) for n_ in ast.walk(s_)))
            if stored.get(v, 0) == 1 and v not in params and v not in _captured_names(fn) and root_ok \
                    and not any(_count_loads(s_, v) for s_ in body[:i]):
                total = _count_loads(fn, v)
                replaced = 0

                def descend(block, start):
                    """replace uses in block[start:] as long as the path stays clean; returns False when it stops"""
                    nonlocal replaced
                    for k in range(start, len(block)):
                        s_ = block[k]
                        if _count_loads(s_, v):
                            if isinstance(s_, ast.If):
                                if not _clean_expr(s_.test):
                                    return False
                                n0 = _count_loads(s_.test, v)
                                s_.test = _Subst({v: st.value}).visit(s_.test)
                                replaced += n0
                                okb = descend(s_.body, 0)
                                oke = descend(s_.orelse, 0) if s_.orelse else True
                                if not ((okb or _exits_function(s_.body)) and (oke or _exits_function(s_.orelse))):
                                    return False
                                if not _skippable(s_):
                                    return False
                                continue
                            if isinstance(s_, (ast.Assign, ast.Return, ast.Expr, ast.Raise)) or (
                                    isinstance(s_, ast.AugAssign) and isinstance(s_.target, ast.Name) and s_.target.id != v):
                                # the use is evaluated before whatever the statement itself writes, if nothing effectful
                                # comes first in it (or nothing in it writes at all)
                                if all(_loaded_first_occurrence(s_, v)) or (not strict and _clean_stmt(s_)):
                                    n0 = _count_loads(s_, v)
                                    block[k] = _Subst({v: st.value}).visit(s_)
                                    replaced += n0
                                    if not _skippable(block[k]):
                                        return False
                                    continue
                            return False
                        if not _skippable(s_):
                            return False
                        if strict and replaced == 0 and not (
                                isinstance(s_, ast.Assign) and all(isinstance(t_, ast.Name) for t_ in s_.targets)
                                and _movable_value(s_.value)):
                            return False        # the read would move past something that can raise
                    return True
                saved = copy.deepcopy(body[i + 1:])
                descend(body, i + 1)
                if replaced == total and total > 0:
                    del body[i]
                    changed = True
                    continue
                # all or nothing: a name written out in some places only would leave two spellings of one quantity
                body[i + 1:] = saved
        i += 1
    return changed


def _loaded_first_occurrence(stmt, v):
    """[True] when the statement reads ``v`` before anything effectful and reads it once; else [False]"""
    if _count_loads(stmt, v) != 1:
        return [False]
    return [_loaded_first(stmt, v)]


def _append_loops(fn):
    """[(block, index)] of ``L = []`` directly followed by ``for T in S: [if P:] L.append(E)`` with L used for nothing else
    inside the loop"""
    out = []
    for blk in _blocks_of(fn):
        for i in range(len(blk) - 1):
            st, nxt = blk[i], blk[i + 1]
            if isinstance(st, ast.Assign) and len(st.targets) == 1 and isinstance(st.targets[0], ast.Name) \
                    and isinstance(st.value, ast.List) and not st.value.elts and _append_loop_on(nxt, st.targets[0].id):
                L = st.targets[0].id
                body = nxt.body[0]
                test = None
                if isinstance(body, ast.If):
                    test, body = body.test, body.body[0]
                E = body.value.args[0] if len(body.value.args) == 1 else None
                if E is None or _count_loads(E, L) or _count_loads(nxt.iter, L) or (test is not None and _count_loads(test, L)):
                    continue
                tnames = {n.id for n in ast.walk(nxt.target) if isinstance(n, ast.Name)}

                def read_first(name):
                    """is the loop variable read after the loop before anything re-binds it (in source order)?"""
                    occ = []
                    for s_ in blk[i + 2:]:
                        for n in ast.walk(s_):
                            if isinstance(n, ast.Name) and n.id == name:
                                aug = isinstance(getattr(n, "_aug", None), bool)
                                occ.append((getattr(n, "lineno", 0), getattr(n, "col_offset", 0), isinstance(n.ctx, ast.Load)))
                            elif isinstance(n, ast.AugAssign) and isinstance(n.target, ast.Name) and n.target.id == name:
                                occ.append((getattr(n, "lineno", 0), -1, True))
                    if not occ:
                        return False
                    # an assignment evaluates its right-hand side first: x = f(x) reads x
                    occ.sort()
                    first = occ[0]
                    if first[2]:
                        return True
                    same_line_reads = [o for o in occ if o[0] == first[0] and o[2]]
                    return bool(same_line_reads)
                if any(read_first(nm) for nm in tnames):
                    continue            # the loop variable is read afterwards: a comprehension would hide it
                if any(isinstance(n, (ast.Yield, ast.YieldFrom, ast.Await)) for n in ast.walk(nxt)):
                    continue
                out.append((blk, i, L, E, test, nxt))
    return out


def _loops_to_comprehensions(fn):
    did = False
    for _ in range(8):
        found = _append_loops(fn)
        if not found:
            break
        blk, i, L, E, test, loop = found[0]
        comp = ast.ListComp(elt=E, generators=[ast.comprehension(target=loop.target, iter=loop.iter,
                                                                 ifs=[test] if test is not None else [], is_async=0)])
        blk[i] = ast.Assign(targets=[ast.Name(id=L, ctx=ast.Store())], value=comp, lineno=blk[i].lineno, col_offset=0)
        del blk[i + 1]
        did = True
    return did


def _reuse_param_names(fn, only=None, keep=()):
    """``L = P`` in one arm and ``L = f(P)`` in the other (or the conditional-expression form), P a parameter that is
    never read or written afterwards and L bound nowhere else: L *is* the converted parameter - the view calls it P
    again (``if not isinstance(other, Poly): other = Poly(other)``)"""
    params = _scope_params(fn)
    changed = False
    body = fn.body
    for i, st in enumerate(body):
        L = P = None
        if isinstance(st, ast.If) and len(st.body) == 1 and len(st.orelse) == 1 \
                and all(isinstance(a, ast.Assign) and len(a.targets) == 1 and isinstance(a.targets[0], ast.Name)
                        for a in (st.body[0], st.orelse[0])) and st.body[0].targets[0].id == st.orelse[0].targets[0].id:
            L = st.body[0].targets[0].id
            for a in (st.body[0], st.orelse[0]):
                if isinstance(a.value, ast.Name) and a.value.id in params:
                    P = a.value.id
        elif isinstance(st, ast.Assign) and len(st.targets) == 1 and isinstance(st.targets[0], ast.Name) \
                and isinstance(st.value, ast.IfExp):
            L = st.targets[0].id
            for a in (st.value.body, st.value.orelse):
                if isinstance(a, ast.Name) and a.id in params:
                    P = a.id
        elif isinstance(st, ast.Assign) and len(st.targets) == 1 and isinstance(st.targets[0], ast.Name) \
                and isinstance(st.value, ast.Call) and isinstance(st.value.func, ast.Name) and not st.value.keywords:
            # L = convert(P, ..): the converted parameter
            cands = [a.id for a in st.value.args if isinstance(a, ast.Name) and a.id in params and a.id != "self"]
            if len(cands) == 1:
                L, P = st.targets[0].id, cands[0]
        if L is None or P is None or L in params or L == P or (only is not None and P not in only) or L in keep:
            continue
        def mentions(node_):
            return any(isinstance(n, ast.Name) and n.id == L for n in ast.walk(node_))

        def dead_end(stmt_):
            """every mention of L inside this earlier statement is in a block that leaves the function: another variable
            of the same name, as far as the code from here on is concerned"""
            if not mentions(stmt_):
                return True
            if isinstance(stmt_, ast.If) and not mentions(stmt_.test):
                for arm in (stmt_.body, stmt_.orelse):
                    if any(mentions(x) for x in arm) and not _exits_function(arm) and not all(dead_end(x) for x in arm):
                        return False
                return True
            return False
        later_stores = sum(1 for s_ in body[i + 1:] for n in ast.walk(s_) if isinstance(n, ast.Name) and n.id == L
                           and isinstance(n.ctx, (ast.Store, ast.Del)))
        if later_stores or not all(dead_end(s_) for s_ in body[:i]):
            continue
        if any(isinstance(n, ast.Name) and n.id == P for s_ in body[i + 1:] for n in ast.walk(s_)):
            continue
        if any(isinstance(n, (ast.Global, ast.Nonlocal)) for n in ast.walk(fn)):
            continue
        for s_ in body[i:]:
            for n in ast.walk(s_):
                if isinstance(n, ast.Name) and n.id == L:
                    n.id = P
        if isinstance(st, ast.If):
            selfish = lambda a: isinstance(a.value, ast.Name) and a.value.id == P
            if selfish(st.body[0]):
                body[i] = ast.If(test=_neg_test(st.test), body=st.orelse, orelse=[], lineno=st.lineno, col_offset=0)
            elif selfish(st.orelse[0]):
                st.orelse = []
        changed = True
    return changed


def _clone_stmt(st):
    """a fresh copy of a statement (nodes of the analysed tree carry links to their parents: deepcopy would follow them
    through the whole module)"""
    new = ast.parse(ast.unparse(st)).body[0]
    for n in ast.walk(new):
        if hasattr(n, "lineno"):
            n.lineno = getattr(st, "lineno", n.lineno)
    return new


def desugar_conditionals(stmts, counter=None):
    """Statement-level form of the conditional sub-expressions of simple statements, for engines that enumerate paths:
    ``x = F(a, B if c else C)``  ->  ``if c: t = B  else: t = C`` ; ``x = F(a, t)``     and
    ``x = F(a, E or K)``         ->  ``t = E`` ; ``if not t: t = K`` ; ``x = F(a, t)``
    when nothing with an effect is evaluated before the sub-expression (plain names and attribute chains only), so that
    the order of effects is the one of the original statement.  Returns a new list (the input is not changed); the
    temporaries are numbered from 1 on every top-level call."""
    counter = counter if counter is not None else [0]
    out = []
    for st in stmts:
        st = _clone_stmt(st)
        if isinstance(st, ast.If):
            st.body = desugar_conditionals(st.body, counter)
            st.orelse = desugar_conditionals(st.orelse, counter)
            out.append(st)
            continue
        if not isinstance(st, (ast.Assign, ast.Return, ast.Expr)) or getattr(st, "value", None) is None:
            out.append(st)
            continue
        for _ in range(6):
            cands = [n for n in ast.walk(st.value) if isinstance(n, ast.IfExp) or (
                isinstance(n, ast.BoolOp) and isinstance(n.op, ast.Or) and len(n.values) == 2)]
            # not inside a lazily evaluated scope of the statement
            lazy = {id(x) for n in ast.walk(st.value) if isinstance(n, (ast.Lambda, ast.GeneratorExp, ast.ListComp, ast.SetComp,
                                                                        ast.DictComp)) for x in ast.walk(n) if x is not n}
            cands = [c for c in cands if id(c) not in lazy]
            done = False
            for c in cands:
                counter[0] += 1
                tmp = "cond__%d" % counter[0]
                probe = _clone_stmt(st)
                hit = [False]

                class _P(ast.NodeTransformer):
                    def generic_visit(self, node):
                        if ast.dump(node) == ast.dump(c) and not hit[0]:
                            hit[0] = True
                            return ast.Name(id=tmp, ctx=ast.Load())
                        return ast.NodeTransformer.generic_visit(self, node)
                probe.value = _P().visit(probe.value)
                if not hit[0] or not _loaded_first(probe, tmp):
                    continue
                mk = lambda v: ast.Assign(targets=[ast.Name(id=tmp, ctx=ast.Store())], value=v, lineno=getattr(st, "lineno", 0),
                                          col_offset=0)
                if isinstance(c, ast.IfExp):
                    pre = [ast.If(test=c.test, body=desugar_conditionals([mk(c.body)], counter),
                                  orelse=desugar_conditionals([mk(c.orelse)], counter),
                                  lineno=getattr(st, "lineno", 0), col_offset=0)]
                else:
                    pre = desugar_conditionals([mk(c.values[0])], counter) + [
                        ast.If(test=ast.UnaryOp(op=ast.Not(), operand=ast.Name(id=tmp, ctx=ast.Load())),
                               body=desugar_conditionals([mk(c.values[1])], counter), orelse=[], lineno=getattr(st, "lineno", 0),
                               col_offset=0)]
                for p_ in pre:
                    ast.fix_missing_locations(p_)
                out.extend(pre)
                st = probe
                done = True
                break
            if not done:
                break
        ast.fix_missing_locations(st)
        out.append(st)
    return out


def _product_loops_in_view(fn):
    changed = False
    # a, b = E1, E2 outside any try: the sequence (a value that raises ends the function either way)
    if not any(isinstance(n, ast.Try) for n in ast.walk(fn)):
        for blk in _blocks_of(fn):
            i = 0
            while i < len(blk):
                rew = _tuple_assign_rewrite(blk[i], lenient=True) if isinstance(blk[i], ast.Assign) and isinstance(
                    blk[i].value, ast.Tuple) else None
                if rew:
                    blk[i:i + 1] = rew
                    changed = True
                i += 1
    for blk in _blocks_of(fn):
        for i, st in enumerate(blk):
            if isinstance(st, ast.For):
                pl_ = _product_loop(st, fn)
                if pl_ is not None:
                    blk[i] = pl_
                    changed = True
    return changed


def simplify_views(tree, ref_tree):
    """Functions that are neither identical to nor proved equivalent with their confirmed namesake are still read by
    the rules as they stand.  Two rewrites that cannot change behaviour make them easier to read: flags computed once
    (``has_low = low is not None``, ``n = len(args)``) are put back where they are tested, and single items taken off
    the *args tuple are written ``args[0]`` again.  Returns the keys of the units rewritten."""
    ref = {k: n for k, n, _, _ in units(ref_tree)}
    out = []
    for key, node, container, idx in units(tree):
        r = ref.get(key)
        if r is None or not isinstance(node, FuncTypes) or ast.dump(node) == ast.dump(r):
            continue
        did = _numeric_steps(node)
        for _ in range(4):
            c1 = _propagate_pure(node, only_flags=True)
            c2 = _inline_accessors(node)
            # (only parameters the confirmed function re-binds itself: the point is to speak its language)
            rebound = {n_.id for n_ in ast.walk(r) if isinstance(n_, ast.Name) and isinstance(n_.ctx, ast.Store)} & set(_scope_params(r))
            ref_names = {n_.id for n_ in ast.walk(r) if isinstance(n_, ast.Name) and isinstance(n_.ctx, ast.Store)}
            c3 = _inline_read_aliases(node) or _reuse_param_names(node, rebound, ref_names) or _product_loops_in_view(node) \
                or _inline_super_aliases(node)
            # a list built by an append loop where the confirmed function builds its lists by comprehensions only
            c4 = (not _append_loops(r)) and any(isinstance(n, ast.ListComp) for n in ast.walk(r)) and _loops_to_comprehensions(node)
            if not (c1 or c2 or c3 or c4):
                break
            did = True
        for sub in [n for n in ast.walk(node) if isinstance(n, FuncTypes) and n is not node]:
            for _ in range(4):
                if not (_propagate_pure(sub, only_flags=True) or _inline_accessors(sub)):
                    break
                did = True
        if did:
            ast.fix_missing_locations(node)
            out.append(key)
    return out


def _propagate_pure(fn, only_flags=False):
    """Forward-substitute locals assigned exactly once (at the top level of the function body) to a call-free
    arithmetic expression over names that are never re-bound; and fold ``v = p`` when p is dead afterwards."""
    body = fn.body
    stored = {}
    for n in ast.walk(fn):
        if isinstance(n, ast.Name) and isinstance(n.ctx, (ast.Store, ast.Del)):
            stored[n.id] = stored.get(n.id, 0) + 1
        elif isinstance(n, ast.arg) and n is not None:
            pass
    params = {a.arg for a in fn.args.args + fn.args.kwonlyargs}
    changed = False
    i = 0
    while i < len(body):
        st = body[i]
        if isinstance(st, ast.Assign) and len(st.targets) == 1 and isinstance(st.targets[0], ast.Name):
            v = st.targets[0].id
            if not only_flags and v not in params and isinstance(st.value, ast.Name) and st.value.id != v \
                    and not any(n.id == v for s in body[:i] for n in _names(s)):
                p = st.value.id
                rest = body[i + 1:]
                if not any(n.id == p for s in rest for n in _names(s)) and (p in params or stored.get(p, 0) >= 1):
                    for s in rest:
                        for n in ast.walk(s):
                            if isinstance(n, ast.Name) and n.id == v:
                                n.id = p
                    del body[i]
                    changed = True
                    continue
            if stored.get(v, 0) == 1 and v not in params:
                before = any(_count_loads(s, v) for s in body[:i])
                ops_ = {n.id for n in _names(st.value, ast.Load)}
                later_store = any(o in _stored_names(s) for s in body[i + 1:] for o in ops_)
                flag_ok = _total_flag(st.value, fn) and not any(
                    o in _stored_names(s2) for s2 in ast.walk(fn) if isinstance(s2, ast.stmt) and s2 is not st for o in ops_
                    if isinstance(s2, (ast.Assign, ast.AugAssign, ast.For, ast.With, ast.Delete, ast.Import, ast.ImportFrom)))
                if not before and ((not only_flags and _pure_value(st.value) and all(_int_typed(n, fn) for n in _names(st.value, ast.Load)))
                                   or flag_ok) and not later_store:
                    for j in range(i + 1, len(body)):
                        body[j] = _Subst({v: st.value}).visit(body[j])
                    del body[i]
                    changed = True
                    continue
                if not only_flags and not before and isinstance(st.value, ast.Name):
                    p = st.value.id
                    rest = body[i + 1:]
                    p_after = any(n.id == p for s in rest for n in _names(s))
                    if not p_after and (p in params or stored.get(p, 0) >= 1):
                        for s in rest:
                            for n in ast.walk(s):
                                if isinstance(n, ast.Name) and n.id == v:
                                    n.id = p
                        del body[i]
                        changed = True
                        continue
        i += 1
    return changed


def _captured_names(fn):
    """names read inside nested functions / lambdas (closures see the variable, not a version of it)"""
    out = set()
    for n in ast.walk(fn):
        if n is not fn and isinstance(n, FuncTypes + (ast.Lambda,)):
            for x in ast.walk(n):
                if isinstance(x, ast.Name):
                    out.add(x.id)
    return out


def _ssa_toplevel(fn):
    """Split a local (or parameter) that is re-bound by plain top-level assignments into one name per binding.
    ``if c: x = E`` (x already bound) is first written ``x = E if c else x``."""
    params = {a.arg for a in fn.args.args + fn.args.kwonlyargs}
    captured = _captured_names(fn)
    body = fn.body
    bound_so_far = set(params)
    for i, st in enumerate(body):
        if isinstance(st, ast.If) and not st.orelse and len(st.body) == 1 and isinstance(st.body[0], ast.Assign) \
                and len(st.body[0].targets) == 1 and isinstance(st.body[0].targets[0], ast.Name) \
                and st.body[0].targets[0].id in bound_so_far:
            a = st.body[0]
            body[i] = ast.Assign(targets=a.targets, value=ast.IfExp(test=st.test, body=a.value, orelse=ast.Name(
                id=a.targets[0].id, ctx=ast.Load())), lineno=st.lineno, col_offset=0)
        bound_so_far |= {n.id for n in ast.walk(body[i]) if isinstance(n, ast.Name) and isinstance(n.ctx, ast.Store)
                         and body[i] is not None and isinstance(body[i], ast.Assign)
                         and any(n is t for t in body[i].targets)}
    return fn


def _dict_store(st, dname):
    """(store statement, filters) for ``D[K] = V`` or ``if P: D[K] = V`` (P not looking at D), else None"""
    filters = []
    if isinstance(st, ast.If) and not st.orelse and len(st.body) == 1 and not _count_loads(st.test, dname):
        filters = [st.test]
        st = st.body[0]
    if isinstance(st, ast.Assign) and len(st.targets) == 1 and isinstance(st.targets[0], ast.Subscript) \
            and isinstance(st.targets[0].value, ast.Name) and st.targets[0].value.id == dname:
        return st, filters
    return None


def _pairs_iterable(e, root):
    """certainly an iterable of (key, value) pairs: iteritems(..) / x.items() / a local bound to a list of 2-tuples"""
    if isinstance(e, ast.Call) and ((isinstance(e.func, ast.Name) and e.func.id == "iteritems" and len(e.args) == 1)
                                    or (isinstance(e.func, ast.Attribute) and e.func.attr == "items" and not e.args)):
        return True
    if isinstance(e, (ast.ListComp, ast.GeneratorExp)) and isinstance(e.elt, ast.Tuple) and len(e.elt.elts) == 2:
        return True
    if isinstance(e, ast.Call) and ast.unparse(e.func) in ("it.chain", "chain", "itertools.chain") and e.args and not e.keywords:
        return all(_pairs_iterable(a, root) for a in e.args)
    if isinstance(e, ast.Name) and root is not None:
        defs = [n.value for n in ast.walk(root) if isinstance(n, ast.Assign)
                and any(isinstance(t, ast.Name) and t.id == e.id for t in n.targets)]
        return bool(defs) and all(_pairs_iterable(d, None) for d in defs)
    return False


def _const_set(e):
    """the literal values a (conditional expression of) literal(s) can take, or None"""
    if isinstance(e, ast.Constant) and (e.value is None or type(e.value) in (int, float, bool, str)):
        return [e.value]
    if isinstance(e, ast.UnaryOp) and isinstance(e.op, ast.USub) and isinstance(e.operand, ast.Constant) \
            and type(e.operand.value) in (int, float):
        return [-e.operand.value]
    if isinstance(e, ast.IfExp):
        a, b = _const_set(e.body), _const_set(e.orelse)
        return None if a is None or b is None else a + b
    return None


def _decide_test(test, x, values):
    """truth of ``test`` (reads only ``x`` and literals) when it is the same for every value, else None"""
    class Unknown(Exception):
        pass

    def ev(e, v):
        if isinstance(e, ast.Name):
            if e.id == x and isinstance(e.ctx, ast.Load):
                return v
            raise Unknown()
        if isinstance(e, ast.Constant):
            return e.value
        if isinstance(e, ast.UnaryOp) and isinstance(e.op, ast.Not):
            return not ev(e.operand, v)
        if isinstance(e, ast.UnaryOp) and isinstance(e.op, ast.USub):
            r = ev(e.operand, v)
            if type(r) not in (int, float):
                raise Unknown()
            return -r
        if isinstance(e, ast.BoolOp):
            r = None
            for sub in e.values:
                r = ev(sub, v)
                if isinstance(e.op, ast.And) and not r:
                    return r
                if isinstance(e.op, ast.Or) and r:
                    return r
            return r
        if isinstance(e, ast.Compare) and len(e.ops) == 1:
            a, b = ev(e.left, v), ev(e.comparators[0], v)
            op = e.ops[0]
            if isinstance(op, (ast.Is, ast.IsNot)):
                if a is None or b is None:
                    return (a is b) == isinstance(op, ast.Is)
                raise Unknown()
            num = lambda z: type(z) in (int, float, bool)
            if isinstance(op, (ast.Eq, ast.NotEq)):
                if (num(a) and num(b)) or (isinstance(a, str) and isinstance(b, str)) or a is None or b is None:
                    return (a == b) == isinstance(op, ast.Eq)
                if type(a) != type(b):
                    return isinstance(op, ast.NotEq)
                raise Unknown()
            if num(a) and num(b) and isinstance(op, (ast.Lt, ast.LtE, ast.Gt, ast.GtE)):
                return {ast.Lt: a < b, ast.LtE: a <= b, ast.Gt: a > b, ast.GtE: a >= b}[type(op)]
            raise Unknown()
        raise Unknown()
    try:
        rs = {bool(ev(test, v)) for v in values}
    except Unknown:
        return None
    return rs.pop() if len(rs) == 1 else None


def _tuple_assign_rewrite(st, lenient=False):
    """T1, T2 = (A1, A2) if c else (B1, B2)   ->   if c: T1, T2 = A1, A2  else: T1, T2 = B1, B2
    T1, T2 = V1, V2  ->  T1 = V1; T2 = V2   when no value reads an earlier (really assigned) target and nothing that
    can raise comes after a real assignment (``x = x`` is none and goes).  Returns the replacement statements or None."""
    if not (isinstance(st, ast.Assign) and len(st.targets) == 1 and isinstance(st.targets[0], ast.Tuple)
            and all(isinstance(t, ast.Name) for t in st.targets[0].elts)):
        return None
    tg = st.targets[0]
    if isinstance(st.value, ast.IfExp):
        def arity_ok(e):
            if isinstance(e, ast.IfExp):
                return arity_ok(e.body) and arity_ok(e.orelse)
            return isinstance(e, ast.Tuple) and len(e.elts) == len(tg.elts) and not any(isinstance(x, ast.Starred) for x in e.elts)
        if not arity_ok(st.value):
            return None

        def mk(v):
            t2 = ast.Tuple(elts=[ast.Name(id=t.id, ctx=ast.Store()) for t in tg.elts], ctx=ast.Store())
            return ast.Assign(targets=[t2], value=v, lineno=st.lineno, col_offset=0)
        return [ast.If(test=st.value.test, body=[mk(st.value.body)], orelse=[mk(st.value.orelse)], lineno=st.lineno, col_offset=0)]
    if isinstance(st.value, ast.Tuple) and len(st.value.elts) == len(tg.elts) \
            and not any(isinstance(x, ast.Starred) for x in st.value.elts) and len({t.id for t in tg.elts}) == len(tg.elts):
        real, seq = set(), []
        later_targets = [t.id for t in tg.elts]
        for k, (t_, v_) in enumerate(zip(tg.elts, st.value.elts)):
            selfish = isinstance(v_, ast.Name) and v_.id == t_.id
            if real and not isinstance(v_, (ast.Name, ast.Constant)) and not lenient:
                return None
            if {n_.id for n_ in _names(v_, ast.Load)} & real:
                return None
            if not selfish:
                real.add(t_.id)
                seq.append(ast.Assign(targets=[ast.Name(id=t_.id, ctx=ast.Store())], value=v_, lineno=st.lineno, col_offset=0))
        return seq
    return None


def _numeric_steps(fn):
    """``x = x + 1`` / ``x = x - 1.5`` / ``x = 1 + x`` (a plain name stepped by a numeric literal) are written
    ``x += 1`` ...: the name holds a number on both spellings (anything else is the same TypeError), and numbers are
    not changed in place.  Returns True when something was rewritten."""
    changed = False
    for node in ast.walk(fn):
        for fld in ("body", "orelse", "finalbody"):
            blk = getattr(node, fld, None)
            if not (isinstance(blk, list) and blk and isinstance(blk[0], ast.stmt)):
                continue
            for i, st in enumerate(blk):
                if not (isinstance(st, ast.Assign) and len(st.targets) == 1 and isinstance(st.targets[0], ast.Name)
                        and isinstance(st.value, ast.BinOp) and isinstance(st.value.op, (ast.Add, ast.Sub))):
                    continue
                x, l, r = st.targets[0].id, st.value.left, st.value.right
                lit = lambda e: isinstance(e, ast.Constant) and type(e.value) in (int, float)
                if isinstance(l, ast.Name) and l.id == x and lit(r):
                    step = r
                elif isinstance(st.value.op, ast.Add) and isinstance(r, ast.Name) and r.id == x and lit(l):
                    step = l
                else:
                    continue
                blk[i] = ast.copy_location(ast.AugAssign(target=ast.Name(id=x, ctx=ast.Store()), op=st.value.op, value=step), st)
                changed = True
    if changed:
        ast.fix_missing_locations(fn)
    return changed


def _tuple_assign_prepass(f):
    changed = True
    rounds = 0
    while changed and rounds < 6:
        changed = False
        rounds += 1
        for n in ast.walk(f):
            for fld in ("body", "orelse", "finalbody"):
                blk = getattr(n, fld, None)
                if isinstance(blk, list) and blk and isinstance(blk[0], ast.stmt):
                    i = 0
                    while i < len(blk):
                        rew = _tuple_assign_rewrite(blk[i])
                        if rew is not None:
                            blk[i:i + 1] = rew or [ast.Pass()]
                            changed = True
                        i += 1


def _product_loop(st, root):
    """for A, B in product(X, Y): BODY   ->   for A in X: for B in Y: BODY      (X, Y lists built in this function that BODY
    does not touch; no ``break``: it would only leave the inner loop).  Returns the nested loop or None."""
    if not (isinstance(st, ast.For) and not st.orelse and isinstance(st.target, ast.Tuple) and len(st.target.elts) == 2
            and isinstance(st.iter, ast.Call) and ast.unparse(st.iter.func) in ("product", "it.product", "itertools.product")
            and len(st.iter.args) == 2 and not st.iter.keywords and all(isinstance(a, ast.Name) for a in st.iter.args)):
        return None

    def list_local(nm):
        binds = [n for n in ast.walk(root) if isinstance(n, ast.Assign) and any(
            isinstance(t, ast.Name) and t.id == nm for t in n.targets)]
        stores = sum(1 for n in ast.walk(root) if isinstance(n, ast.Name) and n.id == nm
                     and isinstance(n.ctx, (ast.Store, ast.Del)))
        return len(binds) == 1 and stores == 1 and isinstance(binds[0].value, (ast.ListComp, ast.List))
    xs, ys = st.iter.args
    body_names = {n.id for b_ in st.body for n in ast.walk(b_) if isinstance(n, ast.Name)}

    def own_break(stmts_):
        for b_ in stmts_:
            if isinstance(b_, ast.Break):
                return True
            if isinstance(b_, (ast.For, ast.While) + FuncTypes):
                continue
            for fld_ in ("body", "orelse", "finalbody"):
                if own_break(getattr(b_, fld_, []) or []):
                    return True
            for h_ in getattr(b_, "handlers", []) or []:
                if own_break(h_.body):
                    return True
        return False
    if list_local(xs.id) and list_local(ys.id) and xs.id not in body_names and ys.id not in body_names \
            and not own_break(st.body):
        inner = ast.For(target=st.target.elts[1], iter=ys, body=st.body, orelse=[], lineno=st.lineno, col_offset=0)
        return ast.For(target=st.target.elts[0], iter=xs, body=[inner], orelse=[], lineno=st.lineno, col_offset=0)
    return None


def _norm_simple(stmts, ctx):
    """statement-local rewrites inside one block (no nesting changes)"""
    stmts = [s for s in stmts if not isinstance(s, ast.Pass)]
    stmts = docstring_free(stmts)
    changed = True
    rounds = 0
    while changed and rounds < 10:
        rounds += 1
        changed = False
        out = []
        i = 0
        while i < len(stmts):
            st = stmts[i]
            nxt = stmts[i + 1] if i + 1 < len(stmts) else None
            if isinstance(st, ast.Assign) and len(st.targets) > 1 and isinstance(st.value, (ast.Name, ast.Constant)):
                for t in st.targets:
                    out.append(ast.Assign(targets=[t], value=st.value, lineno=st.lineno, col_offset=0))
                changed = True
                i += 1
                continue
            if isinstance(st, ast.Assign) and len(st.targets) == 1 and isinstance(st.targets[0], (ast.Tuple, ast.List)) \
                    and isinstance(st.value, (ast.Tuple, ast.List)) and len(st.value.elts) == len(st.targets[0].elts) \
                    and all(isinstance(e, (ast.Name, ast.Constant)) for e in st.value.elts) \
                    and not any(isinstance(t, ast.Starred) for t in st.targets[0].elts):
                tnames = {n.id for t in st.targets[0].elts for n in ast.walk(t) if isinstance(n, ast.Name)}
                if not tnames & {e.id for e in st.value.elts if isinstance(e, ast.Name)}:
                    for t, e in zip(st.targets[0].elts, st.value.elts):
                        out.append(ast.Assign(targets=[t], value=e, lineno=st.lineno, col_offset=0))
                    changed = True
                    i += 1
                    continue
            # for v in count(K): BODY   ->   v = K ; while True: BODY ; v += 1     (BODY neither re-binds v nor continues)
            if isinstance(st, ast.For) and not st.orelse and isinstance(st.target, ast.Name) and isinstance(st.iter, ast.Call) \
                    and ast.unparse(st.iter.func) in ("count", "it.count", "itertools.count") and not st.iter.keywords \
                    and len(st.iter.args) in (0, 1) and all(isinstance(a_, ast.Constant) and type(a_.value) is int
                                                             for a_ in st.iter.args):
                v_ = st.target.id

                def own_continue(stmts_):
                    for b_ in stmts_:
                        if isinstance(b_, ast.Continue):
                            return True
                        if isinstance(b_, (ast.For, ast.While) + FuncTypes):
                            continue
                        for fld_ in ("body", "orelse", "finalbody"):
                            if own_continue(getattr(b_, fld_, []) or []):
                                return True
                        for h_ in getattr(b_, "handlers", []) or []:
                            if own_continue(h_.body):
                                return True
                    return False
                if not own_continue(st.body) and v_ not in {n_.id for b_ in st.body for n_ in ast.walk(b_)
                                                            if isinstance(n_, ast.Name) and isinstance(n_.ctx, (ast.Store, ast.Del))}:
                    k_ = st.iter.args[0].value if st.iter.args else 0
                    init = ast.Assign(targets=[ast.Name(id=v_, ctx=ast.Store())], value=ast.Constant(value=k_),
                                      lineno=st.lineno, col_offset=0)
                    inc = ast.AugAssign(target=ast.Name(id=v_, ctx=ast.Store()), op=ast.Add(), value=ast.Constant(value=1),
                                        lineno=st.lineno, col_offset=0)
                    loop_ = ast.While(test=ast.Constant(value=True), body=list(st.body) + [inc], orelse=[],
                                      lineno=st.lineno, col_offset=0)
                    stmts[i:i + 1] = [init, loop_]
                    changed = True
                    continue
            # if t: def f(a): A        else: f = g   (or another def f(a): B)       ->   def f(a): if t: A else: return g(a)
            # (t and g plain locals bound once: the test gives the same answer whenever f is called)
            if isinstance(st, ast.If) and isinstance(st.test, ast.Name) and len(st.body) == 1 and len(st.orelse) == 1 \
                    and ctx.get("root") is not None and not ctx.get("final"):
                da, db = st.body[0], st.orelse[0]
                if isinstance(da, ast.Assign) or (isinstance(da, ast.FunctionDef) and isinstance(db, ast.FunctionDef) and False):
                    pass
                swap_arms = False
                if not isinstance(da, ast.FunctionDef) and isinstance(db, ast.FunctionDef):
                    da, db, swap_arms = db, da, True
                if isinstance(da, ast.FunctionDef) and not da.decorator_list \
                        and not any(isinstance(n_, (ast.Yield, ast.YieldFrom)) for n_ in ast.walk(da)):
                    a_ = da.args
                    plain = not (a_.vararg or a_.kwarg or a_.kwonlyargs or a_.posonlyargs or a_.defaults)
                    root_ = ctx["root"]
                    once = lambda nm: sum(1 for n_ in ast.walk(root_) if (isinstance(n_, ast.Name) and n_.id == nm and isinstance(
                        n_.ctx, (ast.Store, ast.Del))) or (isinstance(n_, FuncTypes) and n_ is not root_ and n_.name == nm)
                        or (isinstance(n_, ast.arg) and n_.arg == nm)) == 1
                    other = None
                    if isinstance(db, ast.Assign) and len(db.targets) == 1 and isinstance(db.targets[0], ast.Name) \
                            and db.targets[0].id == da.name and isinstance(db.value, ast.Name) and once(db.value.id):
                        other = [ast.Return(value=ast.Call(func=ast.Name(id=db.value.id, ctx=ast.Load()),
                                                           args=[ast.Name(id=x_.arg, ctx=ast.Load()) for x_ in a_.args], keywords=[]),
                                            lineno=st.lineno, col_offset=0)]
                    elif isinstance(db, ast.FunctionDef) and db.name == da.name and not db.decorator_list \
                            and ast.dump(db.args) == ast.dump(a_):
                        other = list(db.body)
                    binds_f = sum(1 for n_ in ast.walk(root_) if (isinstance(n_, ast.Name) and n_.id == da.name and isinstance(
                        n_.ctx, (ast.Store, ast.Del))) or (isinstance(n_, FuncTypes) and n_ is not root_ and n_.name == da.name))
                    if plain and other is not None and once(st.test.id) and binds_f == 2:
                        inner_if = ast.If(test=ast.Name(id=st.test.id, ctx=ast.Load()),
                                          body=list(da.body) if not swap_arms else other,
                                          orelse=other if not swap_arms else list(da.body), lineno=st.lineno, col_offset=0)
                        nf = ast.FunctionDef(name=da.name, args=a_, body=[inner_if], decorator_list=[], returns=None,
                                             type_comment=None, lineno=st.lineno, col_offset=0)
                        try:
                            nf.type_params = []
                        except Exception:
                            pass
                        ast.fix_missing_locations(nf)
                        stmts[i] = nf
                        changed = True
                        continue
            # x = <call-free arithmetic over int-typed names> (x bound once, every use later in this block, operands not
            # re-bound on the way): written out at its uses - ints have no identity worth keeping
            if isinstance(st, ast.Assign) and len(st.targets) == 1 and isinstance(st.targets[0], ast.Name) \
                    and ctx.get("root") is not None and not ctx.get("final") and _pure_value(st.value) \
                    and all(_int_typed(n_, ctx["root"]) for n_ in _names(st.value, ast.Load)):
                x_ = st.targets[0].id
                root_ = ctx["root"]
                stores_x = sum(1 for n_ in ast.walk(root_) if isinstance(n_, ast.Name) and n_.id == x_
                               and isinstance(n_.ctx, (ast.Store, ast.Del)))
                loads_x = sum(1 for n_ in ast.walk(root_) if isinstance(n_, ast.Name) and n_.id == x_ and isinstance(n_.ctx, ast.Load))
                later_ = stmts[i + 1:]
                here_ = sum(_count_loads(s_, x_) for s_ in later_)
                ops_ = {n_.id for n_ in _names(st.value, ast.Load)}
                last_use = max([k_ for k_, s_ in enumerate(later_) if _count_loads(s_, x_)] or [-1])
                if stores_x == 1 and loads_x == here_ and here_ > 0 and not ctx.get("in_loop") \
                        and not any(ops_ & _stored_names(s_) for s_ in later_[:last_use + 1]) \
                        and x_ not in {n_.arg for n_ in ast.walk(root_) if isinstance(n_, ast.arg)}:
                    for k_ in range(i + 1, len(stmts)):
                        stmts[k_] = _Subst({x_: st.value}).visit(stmts[k_])
                    del stmts[i]
                    changed = True
                    continue
            # x = <int arithmetic over int-typed names and one len(..)>   ->   t = len(..) ; x = <arithmetic over t>
            # (the names before the call are plain reads: taking the size first changes nothing)
            if isinstance(st, ast.Assign) and len(st.targets) == 1 and isinstance(st.targets[0], ast.Name) \
                    and isinstance(st.value, ast.BinOp) and ctx.get("root") is not None and not ctx.get("final"):
                calls_ = [n_ for n_ in ast.walk(st.value) if isinstance(n_, ast.Call)]
                shape_ok = all(isinstance(n_, (ast.BinOp, ast.Name, ast.Constant, ast.Call, ast.operator, ast.expr_context,
                                                 ast.UnaryOp, ast.unaryop, ast.Attribute))
                               for n_ in ast.walk(st.value))
                if len(calls_) == 1 and shape_ok and isinstance(calls_[0].func, ast.Name) and calls_[0].func.id == "len" \
                        and len(calls_[0].args) == 1 and not calls_[0].keywords \
                        and all(isinstance(n_.op, (ast.Add, ast.Sub, ast.Mult)) for n_ in ast.walk(st.value) if isinstance(n_, ast.BinOp)):
                    inside = {id(n_) for n_ in ast.walk(calls_[0])}
                    outer_names = [n_ for n_ in ast.walk(st.value) if isinstance(n_, ast.Name) and id(n_) not in inside]
                    outer_attrs = [n_ for n_ in ast.walk(st.value) if isinstance(n_, ast.Attribute) and id(n_) not in inside]
                    if outer_names and not outer_attrs and all(_int_typed(n_, ctx["root"]) for n_ in outer_names) \
                            and all(type(n_.value) is int for n_ in ast.walk(st.value)
                                    if isinstance(n_, ast.Constant) and id(n_) not in inside):
                        _HOIST[0] += 1
                        tmp = "hoist__%d" % _HOIST[0]
                        call_ = calls_[0]
                        new_val = copy.deepcopy(st.value)
                        for n_ in ast.walk(new_val):
                            for fld_, val_ in ast.iter_fields(n_):
                                if isinstance(val_, ast.Call) and ast.dump(val_) == ast.dump(call_):
                                    setattr(n_, fld_, ast.Name(id=tmp, ctx=ast.Load()))
                        stmts[i:i + 1] = [ast.Assign(targets=[ast.Name(id=tmp, ctx=ast.Store())], value=call_, lineno=st.lineno,
                                                     col_offset=0),
                                          ast.Assign(targets=st.targets, value=new_val, lineno=st.lineno, col_offset=0)]
                        changed = True
                        continue
            # for x in IT: break  [else: E]      ->      try: x = next(IT)  except StopIteration: E
            # (IT a local bound once to iter(..): the loop asks it for exactly one item)
            if isinstance(st, ast.For) and isinstance(st.target, ast.Name) and isinstance(st.iter, ast.Name) \
                    and len(st.body) == 1 and isinstance(st.body[0], ast.Break) and ctx.get("root") is not None:
                itn = st.iter.id
                binds_ = [n_ for n_ in ast.walk(ctx["root"]) if isinstance(n_, ast.Assign) and any(
                    isinstance(t_, ast.Name) and t_.id == itn for t_ in n_.targets)]
                stores_ = sum(1 for n_ in ast.walk(ctx["root"]) if isinstance(n_, ast.Name) and n_.id == itn
                              and isinstance(n_.ctx, (ast.Store, ast.Del)))
                if len(binds_) == 1 and stores_ == 1 and isinstance(binds_[0].value, ast.Call) \
                        and isinstance(binds_[0].value.func, ast.Name) and binds_[0].value.func.id == "iter" \
                        and len(binds_[0].value.args) == 1:
                    asg = ast.Assign(targets=[ast.Name(id=st.target.id, ctx=ast.Store())], value=ast.Call(
                        func=ast.Name(id="next", ctx=ast.Load()), args=[ast.Name(id=itn, ctx=ast.Load())], keywords=[]),
                        lineno=st.lineno, col_offset=0)
                    hd = ast.ExceptHandler(type=ast.Name(id="StopIteration", ctx=ast.Load()), name=None,
                                           body=list(st.orelse) or [ast.Pass()])
                    stmts[i] = ast.Try(body=[asg], handlers=[hd], orelse=[], finalbody=[], lineno=st.lineno, col_offset=0)
                    ast.fix_missing_locations(stmts[i])
                    changed = True
                    continue
            # acc = 0 ; for T in S: acc = acc + E      ->      acc = sum((E for T in S))
            # (sum starts from the int 0 and adds with the binary operator, left to right; E does not read acc; T is not
            #  used afterwards; no break / else)
            if isinstance(st, ast.Assign) and len(st.targets) == 1 and isinstance(st.targets[0], ast.Name) \
                    and isinstance(st.value, ast.Constant) and type(st.value.value) is int and st.value.value == 0 \
                    and isinstance(nxt, ast.For) and not nxt.orelse and len(nxt.body) == 1 \
                    and isinstance(nxt.body[0], ast.Assign) and len(nxt.body[0].targets) == 1 \
                    and isinstance(nxt.body[0].targets[0], ast.Name) and nxt.body[0].targets[0].id == st.targets[0].id \
                    and isinstance(nxt.body[0].value, ast.BinOp) and isinstance(nxt.body[0].value.op, ast.Add) \
                    and isinstance(nxt.body[0].value.left, ast.Name) and nxt.body[0].value.left.id == st.targets[0].id:
                acc_ = st.targets[0].id
                e_ = nxt.body[0].value.right
                tnames = {n_.id for n_ in ast.walk(nxt.target) if isinstance(n_, ast.Name)}
                after_ = stmts[i + 2:]
                if _count_loads(e_, acc_) == 0 and acc_ not in tnames and _count_loads(nxt.iter, acc_) == 0 \
                        and all(isinstance(n_, (ast.Name, ast.Tuple)) for n_ in ast.walk(nxt.target) if isinstance(n_, ast.expr)) \
                        and not any(n_.id in tnames for s_ in after_ for n_ in ast.walk(s_) if isinstance(n_, ast.Name)) \
                        and not any(isinstance(n_, (ast.Yield, ast.YieldFrom, ast.Await)) for n_ in ast.walk(e_)) \
                        and ctx.get("root") is not None and not ctx.get("in_loop"):
                    tgt_ = copy.deepcopy(nxt.target)
                    ge = ast.GeneratorExp(elt=e_, generators=[ast.comprehension(target=tgt_, iter=nxt.iter, ifs=[], is_async=0)])
                    stmts[i:i + 2] = [ast.Assign(targets=[ast.Name(id=acc_, ctx=ast.Store())], value=ast.Call(
                        func=ast.Name(id="sum", ctx=ast.Load()), args=[ge], keywords=[]), lineno=st.lineno, col_offset=0)]
                    changed = True
                    continue
            rew = _tuple_assign_rewrite(st)
            if rew is not None:
                stmts[i:i + 1] = rew
                changed = True
                continue
            if isinstance(st, ast.For) and ctx.get("root") is not None:
                pl_ = _product_loop(st, ctx["root"])
                if pl_ is not None:
                    st = pl_
                    stmts[i] = st
                    changed = True
            # for x in map(f, S): BODY   ->   for x in S: x = f(x); BODY        (lazy map: same interleaving)
            if isinstance(st, ast.For) and isinstance(st.target, ast.Name) and isinstance(st.iter, ast.Call) \
                    and isinstance(st.iter.func, ast.Name) and st.iter.func.id in ("map", "xmap") and len(st.iter.args) == 2 \
                    and not st.iter.keywords and isinstance(st.iter.args[0], (ast.Name, ast.Lambda, ast.Attribute)) \
                    and not ctx.get("final"):
                f_, seq_ = st.iter.args
                t = st.target.id
                st.iter = seq_
                call = ast.Call(func=f_, args=[ast.Name(id=t, ctx=ast.Load())], keywords=[])
                st.body = [ast.Assign(targets=[ast.Name(id=t, ctx=ast.Store())], value=call, lineno=st.lineno, col_offset=0)] \
                    + list(st.body)
                changed = True
            # for T in (ELT for C in S): BODY   ->   for C in S: T = ELT; BODY
            if isinstance(st, ast.For) and isinstance(st.iter, ast.GeneratorExp) and len(st.iter.generators) == 1 \
                    and not st.iter.generators[0].ifs and isinstance(st.target, ast.Name) and not ctx.get("final") \
                    and isinstance(st.iter.generators[0].target, ast.Name):
                g = st.iter.generators[0]
                cvar = g.target.id
                body_names = {n.id for b_ in st.body for n in ast.walk(b_) if isinstance(n, ast.Name)}
                if cvar not in body_names and cvar != st.target.id:
                    asg = ast.Assign(targets=[ast.Name(id=st.target.id, ctx=ast.Store())], value=st.iter.elt,
                                     lineno=st.lineno, col_offset=0)
                    st.target = ast.Name(id=cvar, ctx=ast.Store())
                    st.iter = g.iter
                    st.body = [asg] + list(st.body)
                    changed = True
            # L = []; for x in S: L.append(E)   ->   L = [E for x in S]
            empty_list = isinstance(st, ast.Assign) and (
                (isinstance(st.value, ast.List) and not st.value.elts) or
                (isinstance(st.value, ast.Call) and isinstance(st.value.func, ast.Name) and not st.value.args
                 and not st.value.keywords and st.value.func.id in _CTX.get("list_classes", ())))
            cond_ifs = []
            if empty_list and len(st.targets) == 1 and isinstance(st.targets[0], ast.Name) and not ctx.get("final") \
                    and nxt is not None and not _append_loop_on(nxt, st.targets[0].id):
                # L = [] ; <statements that do not mention L> ; for ...: L.append(..)   : the empty list can be made later
                j = i + 1
                while j < len(stmts) and st.targets[0].id not in {n.id for n in _names(stmts[j])} \
                        and not isinstance(stmts[j], FuncTypes + (ast.ClassDef,)):
                    j += 1
                if i + 1 < j < len(stmts) and _append_loop_on(stmts[j], st.targets[0].id):
                    stmts = stmts[:i] + stmts[i + 1:j] + [st] + stmts[j:]
                    changed = True
                    continue
            if isinstance(st, ast.Assign) and empty_list and isinstance(nxt, ast.For) and not nxt.orelse \
                    and len(nxt.body) == 1 and isinstance(nxt.body[0], ast.If) and not nxt.body[0].orelse \
                    and len(nxt.body[0].body) == 1 and isinstance(nxt.body[0].body[0], ast.Expr) and not ctx.get("final"):
                # for x in S: if P: L.append(E)   ->  the filter of a comprehension (P must not look at L itself)
                if isinstance(st.targets[0], ast.Name) and not _count_loads(nxt.body[0].test, st.targets[0].id):
                    cond_ifs = [nxt.body[0].test]
                    nxt = ast.For(target=nxt.target, iter=nxt.iter, body=nxt.body[0].body, orelse=[], lineno=nxt.lineno,
                                  col_offset=0)
            if isinstance(st, ast.Assign) and len(st.targets) == 1 and isinstance(st.targets[0], ast.Name) \
                    and empty_list and isinstance(nxt, ast.For) \
                    and not nxt.orelse and len(nxt.body) == 1 and isinstance(nxt.body[0], ast.Expr) \
                    and isinstance(nxt.body[0].value, ast.Call) and isinstance(nxt.body[0].value.func, ast.Attribute) \
                    and nxt.body[0].value.func.attr == "append" and isinstance(nxt.body[0].value.func.value, ast.Name) \
                    and nxt.body[0].value.func.value.id == st.targets[0].id and len(nxt.body[0].value.args) == 1 \
                    and not ctx.get("final"):
                L = st.targets[0].id
                E = nxt.body[0].value.args[0]
                tnames = {n.id for n in ast.walk(nxt.target) if isinstance(n, ast.Name)}
                later_use = any(tnames & _free_name_ids(s_) for s_ in stmts[i + 2:])
                if not _count_loads(E, L) and not _count_loads(nxt.iter, L) and not later_use \
                        and not any(isinstance(n, (ast.Yield, ast.YieldFrom)) for n in ast.walk(nxt)):
                    comp = ast.ListComp(elt=E, generators=[ast.comprehension(target=nxt.target, iter=nxt.iter, ifs=cond_ifs, is_async=0)])
                    if isinstance(st.value, ast.Call):
                        comp = ast.Call(func=st.value.func, args=[comp], keywords=[])
                    out.append(ast.Assign(targets=st.targets, value=comp, lineno=st.lineno, col_offset=0))
                    changed = True
                    i += 2
                    continue
            nxt = stmts[i + 1] if i + 1 < len(stmts) else None
            # D = OrderedDict() ; for T in S: D[K] = V      ->      D = OrderedDict(((K, V) for T in S))
            if isinstance(st, ast.Assign) and len(st.targets) == 1 and isinstance(st.targets[0], ast.Name) \
                    and ((isinstance(st.value, ast.Call) and isinstance(st.value.func, ast.Name)
                          and st.value.func.id in ("OrderedDict", "dict") and not st.value.args and not st.value.keywords)
                         or (isinstance(st.value, ast.Dict) and not st.value.keys)) \
                    and isinstance(nxt, ast.For) and not nxt.orelse and len(nxt.body) == 1 and not ctx.get("final") \
                    and _dict_store(nxt.body[0], st.targets[0].id) is not None:
                D_ = st.targets[0].id
                store_, dfilter = _dict_store(nxt.body[0], D_)
                K_, V_ = store_.targets[0].slice, store_.value
                tn_ = {n.id for n in ast.walk(nxt.target) if isinstance(n, ast.Name)}
                if not _count_loads(K_, D_) and not _count_loads(V_, D_) and not _count_loads(nxt.iter, D_) \
                        and not any(n.id in tn_ for s_ in stmts[i + 2:] for n in _names(s_)) \
                        and not any(isinstance(n, (ast.Yield, ast.YieldFrom)) for n in ast.walk(nxt)):
                    gen = ast.GeneratorExp(elt=ast.Tuple(elts=[K_, V_], ctx=ast.Load()),
                                           generators=[ast.comprehension(target=nxt.target, iter=nxt.iter, ifs=dfilter, is_async=0)])
                    ctor = st.value.func if isinstance(st.value, ast.Call) else ast.Name(id="dict", ctx=ast.Load())
                    out.append(ast.Assign(targets=st.targets, value=ast.Call(func=ctor, args=[gen], keywords=[]),
                                          lineno=st.lineno, col_offset=0))
                    changed = True
                    i += 2
                    continue
            # D = OrderedDict(X) ; D.update(Y) [; D.update(Z)]    ->    D = OrderedDict(it.chain(X, Y, Z))   (all of them pairs)
            if isinstance(st, ast.Assign) and len(st.targets) == 1 and isinstance(st.targets[0], ast.Name) \
                    and isinstance(st.value, ast.Call) and isinstance(st.value.func, ast.Name) \
                    and st.value.func.id in ("OrderedDict", "dict") and len(st.value.args) == 1 and not st.value.keywords \
                    and _pairs_iterable(st.value.args[0], ctx.get("root")) and not ctx.get("final"):
                D_ = st.targets[0].id
                a0_ = st.value.args[0]
                parts = list(a0_.args) if isinstance(a0_, ast.Call) and ast.unparse(a0_.func) in ("it.chain", "chain", "itertools.chain") \
                    else [a0_]
                j = i + 1
                while j < len(stmts):
                    u = stmts[j]
                    if isinstance(u, ast.Expr) and isinstance(u.value, ast.Call) and isinstance(u.value.func, ast.Attribute) \
                            and u.value.func.attr == "update" and isinstance(u.value.func.value, ast.Name) \
                            and u.value.func.value.id == D_ and len(u.value.args) == 1 and not u.value.keywords \
                            and _pairs_iterable(u.value.args[0], ctx.get("root")) and not _count_loads(u.value.args[0], D_):
                        parts.append(u.value.args[0])
                        j += 1
                    else:
                        break
                if j > i + 1:
                    chain = ast.Call(func=ast.Attribute(value=ast.Name(id="it", ctx=ast.Load()), attr="chain", ctx=ast.Load()),
                                     args=parts, keywords=[])
                    out.append(ast.Assign(targets=st.targets, value=ast.Call(func=st.value.func, args=[chain], keywords=[]),
                                          lineno=st.lineno, col_offset=0))
                    changed = True
                    i = j
                    continue
            # L.reverse() ; x = tuple(L)  (L dead afterwards)   ->   x = tuple(reversed(L))
            if isinstance(st, ast.Expr) and isinstance(st.value, ast.Call) and isinstance(st.value.func, ast.Attribute) \
                    and st.value.func.attr == "reverse" and not st.value.args and isinstance(st.value.func.value, ast.Name) \
                    and isinstance(nxt, ast.Assign) and isinstance(nxt.value, ast.Call) and isinstance(nxt.value.func, ast.Name) \
                    and nxt.value.func.id in ("tuple", "list") and len(nxt.value.args) == 1 \
                    and isinstance(nxt.value.args[0], ast.Name) and nxt.value.args[0].id == st.value.func.value.id \
                    and not ctx.get("final"):
                L_ = st.value.func.value.id
                tnames_ = {n.id for t in nxt.targets for n in ast.walk(t) if isinstance(n, ast.Name)}
                if L_ not in tnames_ and not any(_count_loads(s_, L_) for s_ in stmts[i + 2:]):
                    rv_ = ast.Call(func=ast.Name(id="reversed", ctx=ast.Load()), args=[ast.Name(id=L_, ctx=ast.Load())], keywords=[])
                    out.append(ast.Assign(targets=nxt.targets, value=ast.Call(func=nxt.value.func, args=[rv_], keywords=[]),
                                          lineno=nxt.lineno, col_offset=0))
                    changed = True
                    i += 2
                    continue
            # D.update(((K, V) for T in S))  on a plain dict attribute   ->   for T in S: D[K] = V
            if isinstance(st, ast.Expr) and isinstance(st.value, ast.Call) and isinstance(st.value.func, ast.Attribute) \
                    and st.value.func.attr == "update" and len(st.value.args) == 1 and not st.value.keywords \
                    and isinstance(st.value.args[0], (ast.GeneratorExp, ast.ListComp)) \
                    and len(st.value.args[0].generators) == 1 and not st.value.args[0].generators[0].ifs \
                    and isinstance(st.value.args[0].elt, ast.Tuple) and len(st.value.args[0].elt.elts) == 2 \
                    and isinstance(st.value.func.value, ast.Attribute) and st.value.func.value.attr in _CTX.get("dict_attrs", ()) \
                    and not ctx.get("final"):
                g_ = st.value.args[0].generators[0]
                k_, v_ = st.value.args[0].elt.elts
                store = ast.Assign(targets=[ast.Subscript(value=st.value.func.value, slice=k_, ctx=ast.Store())], value=v_,
                                   lineno=st.lineno, col_offset=0)
                out.append(ast.For(target=g_.target, iter=g_.iter, body=[store], orelse=[], lineno=st.lineno, col_offset=0))
                changed = True
                i += 1
                continue
            # x = E ; while x: BODY ; x = E      ->   while True: x = E; if not x: break; BODY     (BODY has no continue)
            if isinstance(st, ast.Assign) and len(st.targets) == 1 and isinstance(st.targets[0], ast.Name) \
                    and isinstance(nxt, ast.While) and isinstance(nxt.test, ast.Name) and nxt.test.id == st.targets[0].id \
                    and not nxt.orelse and len(nxt.body) >= 2 and isinstance(nxt.body[-1], ast.Assign) \
                    and ast.dump(nxt.body[-1]) == ast.dump(st) and not ctx.get("final") \
                    and not any(isinstance(n, ast.Continue) for b_ in nxt.body for n in ast.walk(b_)):
                x = st.targets[0].id
                body = [st, ast.If(test=ast.UnaryOp(op=ast.Not(), operand=ast.Name(id=x, ctx=ast.Load())),
                                   body=[ast.Break(lineno=st.lineno, col_offset=0)], orelse=[], lineno=st.lineno, col_offset=0)] \
                    + list(nxt.body[:-1])
                out.append(ast.While(test=ast.Constant(value=True), body=body, orelse=[], lineno=nxt.lineno, col_offset=0))
                changed = True
                i += 2
                continue
            # for x in S: if not P: return False ; return True    ->   return all(P for x in S)      (and the any() twin)
            if isinstance(st, ast.For) and not st.orelse and len(st.body) == 1 and isinstance(st.body[0], ast.If) \
                    and not st.body[0].orelse and len(st.body[0].body) == 1 and isinstance(st.body[0].body[0], ast.Return) \
                    and isinstance(st.body[0].body[0].value, ast.Constant) and type(st.body[0].body[0].value.value) is bool \
                    and isinstance(nxt, ast.Return) and isinstance(nxt.value, ast.Constant) and type(nxt.value.value) is bool \
                    and nxt.value.value != st.body[0].body[0].value.value and not ctx.get("final"):
                inner = st.body[0]
                if nxt.value.value is True:
                    pred, fn_ = _neg_test(inner.test), "all"
                else:
                    pred, fn_ = inner.test, "any"
                gen = ast.GeneratorExp(elt=pred, generators=[ast.comprehension(target=st.target, iter=st.iter, ifs=[], is_async=0)])
                out.append(ast.Return(value=ast.Call(func=ast.Name(id=fn_, ctx=ast.Load()), args=[gen], keywords=[]),
                                      lineno=st.lineno, col_offset=0))
                changed = True
                i += 2
                continue
            # for T in S: if P: raise X        ->      if any((P for T in S)): raise X          (X does not mention T)
            if isinstance(st, ast.For) and not st.orelse and len(st.body) == 1 and isinstance(st.body[0], ast.If) \
                    and not st.body[0].orelse and len(st.body[0].body) == 1 and isinstance(st.body[0].body[0], ast.Raise) \
                    and not ctx.get("final"):
                tn_ = {n.id for n in ast.walk(st.target) if isinstance(n, ast.Name)}
                rz = st.body[0].body[0]
                if not any(isinstance(n, ast.Name) and n.id in tn_ for n in ast.walk(rz)) \
                        and not any(_count_loads(s_, t_) for s_ in stmts[i + 1:] for t_ in tn_):
                    gen = ast.GeneratorExp(elt=st.body[0].test, generators=[ast.comprehension(target=st.target, iter=st.iter,
                                                                                              ifs=[], is_async=0)])
                    out.append(ast.If(test=ast.Call(func=ast.Name(id="any", ctx=ast.Load()), args=[gen], keywords=[]),
                                      body=[rz], orelse=[], lineno=st.lineno, col_offset=0))
                    changed = True
                    i += 1
                    continue
            # if C: return False ; return E      ->      return (not C) and E
            if isinstance(st, ast.If) and not st.orelse and len(st.body) == 1 and isinstance(st.body[0], ast.Return) \
                    and isinstance(st.body[0].value, ast.Constant) and st.body[0].value.value is False \
                    and isinstance(nxt, ast.Return) and nxt.value is not None and i + 2 == len(stmts) and not ctx.get("final"):
                out.append(ast.Return(value=ast.BoolOp(op=ast.And(), values=[_neg_test(st.test), nxt.value]),
                                      lineno=st.lineno, col_offset=0))
                changed = True
                i += 2
                continue
            # if C: return E ; return False      ->      return C and E        (C certainly a bool)
            if isinstance(st, ast.If) and not st.orelse and len(st.body) == 1 and isinstance(st.body[0], ast.Return) \
                    and st.body[0].value is not None and isinstance(nxt, ast.Return) and isinstance(nxt.value, ast.Constant) \
                    and nxt.value.value is False and i + 2 == len(stmts) and not ctx.get("final") \
                    and (_total_atom(st.test) or (isinstance(st.test, ast.UnaryOp) and isinstance(st.test.op, ast.Not))):
                out.append(ast.Return(value=ast.BoolOp(op=ast.And(), values=[st.test, st.body[0].value]),
                                      lineno=st.lineno, col_offset=0))
                changed = True
                i += 2
                continue
            # for (a, b) in it.product(A, B): BODY   ->   for a in A: for b in B: BODY      (A, B lists built in this function)
            if isinstance(st, ast.For) and not st.orelse and isinstance(st.iter, ast.Call) \
                    and ast.unparse(st.iter.func) in ("it.product", "product", "itertools.product") and len(st.iter.args) == 2 \
                    and not st.iter.keywords and isinstance(st.target, (ast.Tuple, ast.List)) and len(st.target.elts) == 2 \
                    and ctx.get("root") is not None and all(isinstance(a_, ast.Name) for a_ in st.iter.args) \
                    and not ctx.get("final"):
                def is_list(nm):
                    defs = [n.value for n in ast.walk(ctx["root"]) if isinstance(n, ast.Assign)
                            and any(isinstance(t, ast.Name) and t.id == nm for t in n.targets)]
                    other = [n for n in ast.walk(ctx["root"]) if isinstance(n, ast.Name) and n.id == nm
                             and isinstance(n.ctx, (ast.Store, ast.Del))]
                    return defs and len(other) == len(defs) and all(isinstance(d, (ast.List, ast.ListComp)) or (
                        isinstance(d, ast.Call) and isinstance(d.func, ast.Name) and d.func.id == "list") for d in defs)
                if all(is_list(a_.id) for a_ in st.iter.args):
                    inner = ast.For(target=st.target.elts[1], iter=st.iter.args[1], body=st.body, orelse=[],
                                    lineno=st.lineno, col_offset=0)
                    out.append(ast.For(target=st.target.elts[0], iter=st.iter.args[0], body=[inner], orelse=[],
                                       lineno=st.lineno, col_offset=0))
                    changed = True
                    i += 1
                    continue
            # for _ in X: pass   ->   deque(X, maxlen=0)        (consume, keep nothing)
            if isinstance(st, ast.For) and not st.orelse and all(isinstance(b_, ast.Pass) for b_ in st.body) \
                    and isinstance(st.target, ast.Name) and not ctx.get("final") \
                    and not any(_count_loads(s_, st.target.id) for s_ in stmts[i + 1:]):
                out.append(ast.Expr(value=ast.Call(func=ast.Name(id="deque", ctx=ast.Load()), args=[st.iter],
                                                   keywords=[ast.keyword(arg="maxlen", value=ast.Constant(value=0))]),
                                    lineno=st.lineno, col_offset=0))
                changed = True
                i += 1
                continue
            # del x[:]   ->   x[:] = []
            if isinstance(st, ast.Delete) and len(st.targets) == 1 and isinstance(st.targets[0], ast.Subscript) \
                    and isinstance(st.targets[0].slice, ast.Slice) and st.targets[0].slice.lower is None \
                    and st.targets[0].slice.upper is None and st.targets[0].slice.step is None:
                t = ast.Subscript(value=st.targets[0].value, slice=st.targets[0].slice, ctx=ast.Store())
                out.append(ast.Assign(targets=[t], value=ast.List(elts=[], ctx=ast.Load()), lineno=st.lineno, col_offset=0))
                changed = True
                i += 1
                continue
            # x /= y  ->  x = x / y     (no class of the package defines an in-place division)
            if isinstance(st, ast.AugAssign) and isinstance(st.op, ast.Div) and isinstance(st.target, ast.Name) \
                    and not ctx.get("final"):
                out.append(ast.Assign(targets=[ast.Name(id=st.target.id, ctx=ast.Store())],
                                      value=ast.BinOp(left=ast.Name(id=st.target.id, ctx=ast.Load()), op=ast.Div(), right=st.value),
                                      lineno=st.lineno, col_offset=0))
                changed = True
                i += 1
                continue
            # x += [E]  ->  x.append(E)
            if isinstance(st, ast.AugAssign) and isinstance(st.op, ast.Add) and isinstance(st.target, ast.Name) \
                    and isinstance(st.value, ast.List) and len(st.value.elts) == 1 and not isinstance(st.value.elts[0], ast.Starred):
                out.append(ast.Expr(value=ast.Call(func=ast.Attribute(value=ast.Name(id=st.target.id, ctx=ast.Load()), attr="append",
                                                                      ctx=ast.Load()), args=[st.value.elts[0]], keywords=[]),
                                    lineno=st.lineno, col_offset=0))
                changed = True
                i += 1
                continue
            prod_next = isinstance(nxt, ast.For) and isinstance(nxt.iter, ast.Call) and ast.unparse(nxt.iter.func) in (
                "it.product", "product", "itertools.product")
            if isinstance(st, ast.Assign) and len(st.targets) == 1 and isinstance(st.targets[0], ast.Name) and nxt is not None \
                    and not ctx.get("final") and not prod_next:
                v = st.targets[0].id
                later = stmts[i + 2:]
                used_later = any(_count_loads(s, v) for s in later)
                if ctx.get("in_loop") or True:
                    root = ctx.get("root")
                    if root is None:
                        used_later = True
                    else:
                        tot_l = sum(1 for n in ast.walk(root) if isinstance(n, ast.Name) and n.id == v
                                    and isinstance(n.ctx, ast.Load))
                        tot_s = sum(1 for n in ast.walk(root) if isinstance(n, ast.Name) and n.id == v
                                    and isinstance(n.ctx, (ast.Store, ast.Del)))
                        used_later = used_later or not (tot_l == 1 and tot_s == 1)
                uses_next = _count_loads(nxt, v)
                stores_next = v in _stored_names(nxt)
                if not any(_count_loads(s_, v) for s_ in later) and uses_next == 2 and not stores_next \
                        and isinstance(nxt, ast.If) and nxt.orelse \
                        and _total_atom(nxt.test) and nxt.body and _count_loads(nxt.body[0], v) == 1 \
                        and _count_loads(nxt.orelse[0], v) == 1 and _count_loads(nxt.test, v) == 0 \
                        and _loaded_first(nxt.body[0], v) and _loaded_first(nxt.orelse[0], v) and ctx.get("root") is not None \
                        and sum(1 for n in ast.walk(ctx["root"]) if isinstance(n, ast.Name) and n.id == v) == 3:
                    nxt.body[0] = _Subst({v: st.value}).visit(nxt.body[0])
                    nxt.orelse[0] = _Subst({v: st.value}).visit(nxt.orelse[0])
                    changed = True
                    i += 1
                    continue
                # x = <total, effect-free value> ; S      (S neither reads nor writes x nor writes what the value reads):
                # the binding goes after S - as late as possible, next to its first use
                list_flag = None
                if uses_next == 0 and not stores_next and ctx.get("root") is not None and not _movable_value(st.value):
                    list_flag = _private_list_flag(st.value, ctx["root"])
                    if list_flag is not None and any(
                            isinstance(n_, ast.Attribute) and isinstance(n_.value, ast.Name) and n_.value.id in list_flag
                            and n_.attr in ("append", "remove", "clear", "pop", "insert", "extend", "sort", "reverse")
                            for n_ in ast.walk(nxt)):
                        list_flag = None
                if uses_next == 0 and not stores_next and (_movable_value(st.value) or list_flag is not None) \
                        and not isinstance(st.value, (ast.Name, ast.Constant)) \
                        and not isinstance(nxt, FuncTypes + (ast.ClassDef, ast.Return, ast.Raise, ast.Break, ast.Continue)) \
                        and not _always_leaves([nxt]) \
                        and any(_count_loads(s_, v) for s_ in later) \
                        and not ({n.id for n in _names(st.value, ast.Load)} & _stored_names(nxt)) \
                        and v not in {n.id for n in ast.walk(nxt) if isinstance(n, ast.Name)}:
                    out.append(nxt)
                    stmts[i + 1] = st
                    changed = True
                    i += 1
                    continue
                # x = <total, effect-free value> ; if c: A else: B      (c does not read x, nothing after the ``if`` does,
                # nothing else in the function does): the binding belongs to the arms that read x
                if isinstance(nxt, ast.If) and uses_next >= 1 and not stores_next and _count_loads(nxt.test, v) == 0 \
                        and _movable_value(st.value) and not isinstance(st.value, (ast.Name, ast.Constant)) \
                        and not any(_count_loads(s_, v) for s_ in later) and ctx.get("root") is not None \
                        and sum(1 for n in ast.walk(ctx["root"]) if isinstance(n, ast.Name) and n.id == v
                                and isinstance(n.ctx, ast.Load)) == uses_next \
                        and not ({n.id for n in _names(st.value, ast.Load)} & _stored_names(nxt)):
                    mk = lambda: ast.Assign(targets=[ast.Name(id=v, ctx=ast.Store())], value=_copy_expr(st.value),
                                            lineno=st.lineno, col_offset=0)
                    if any(_count_loads(s_, v) for s_ in nxt.body):
                        nxt.body = [mk()] + list(nxt.body)
                    if any(_count_loads(s_, v) for s_ in nxt.orelse):
                        nxt.orelse = [mk()] + list(nxt.orelse)
                    changed = True
                    i += 1
                    continue
                # one use in each arm of a conditional expression with a total test: same thing, as an expression
                if not any(_count_loads(s_, v) for s_ in later) and uses_next == 2 and not stores_next \
                        and not isinstance(nxt, (ast.For, ast.While, ast.If, ast.Try, ast.With) + FuncTypes) \
                        and ctx.get("root") is not None \
                        and sum(1 for n in ast.walk(ctx["root"]) if isinstance(n, ast.Name) and n.id == v) == 3:
                    arms_ok = False
                    for ie in [n for n in ast.walk(nxt) if isinstance(n, ast.IfExp)]:
                        if _count_loads(ie.body, v) == 1 and _count_loads(ie.orelse, v) == 1 and _total_atom(ie.test):
                            variants = []
                            for pick in ("body", "orelse"):
                                cp_ = copy.deepcopy(nxt)
                                for m_ in ast.walk(cp_):
                                    for fld_, val_ in ast.iter_fields(m_):
                                        if isinstance(val_, ast.IfExp) and ast.dump(val_) == ast.dump(ie):
                                            setattr(m_, fld_, getattr(val_, pick))
                                        elif isinstance(val_, list):
                                            for k_, x_ in enumerate(val_):
                                                if isinstance(x_, ast.IfExp) and ast.dump(x_) == ast.dump(ie):
                                                    val_[k_] = getattr(x_, pick)
                                variants.append(cp_)
                            arms_ok = all(_count_loads(c_, v) == 1 and _loaded_first(c_, v) for c_ in variants)
                            break
                    if arms_ok:
                        stmts[i + 1] = _Subst({v: st.value}).visit(nxt)
                        changed = True
                        i += 1
                        continue
                # a value that cannot raise, has no effect and reads only locals (x is None tests, literals, displays,
                # conditional expressions of those) may be computed anywhere before its single use
                if uses_next == 0 and not stores_next and _movable_value(st.value) and ctx.get("root") is not None \
                        and sum(1 for n in ast.walk(ctx["root"]) if isinstance(n, ast.Name) and n.id == v) == 2:
                    ins = {n.id for n in _names(st.value, ast.Load)}
                    j = i + 1
                    while j < len(stmts) and _count_loads(stmts[j], v) == 0 and not (ins & _stored_names(stmts[j])) \
                            and not isinstance(stmts[j], FuncTypes + (ast.ClassDef,)):
                        j += 1
                    if j < len(stmts) and _count_loads(stmts[j], v) == 1 and v not in _stored_names(stmts[j]) \
                            and not isinstance(stmts[j], (ast.For, ast.While, ast.Try, ast.With) + FuncTypes) \
                            and not (ins & _stored_names(stmts[j])):
                        stmts[j] = _Subst({v: st.value}).visit(stmts[j])
                        del stmts[i]
                        changed = True
                        continue
                if not used_later and uses_next == 1 and not stores_next:
                    first = _loaded_first(nxt, v)
                    pure = _simple_arg(st.value) and not isinstance(nxt, (ast.For, ast.While, ast.If, ast.Try, ast.With) + FuncTypes)
                    if first or pure:
                        stmts[i + 1] = _Subst({v: st.value}).visit(nxt)
                        changed = True
                        i += 1
                        continue
            # if c: ..; t = K1  else: ..; t = K2     followed by     if [not] t: X        (t a flag used nowhere else)
            if isinstance(st, ast.If) and st.orelse and isinstance(nxt, ast.If) and not nxt.orelse and ctx.get("root") is not None:
                def flag_of(block):
                    if block and isinstance(block[-1], ast.Assign) and len(block[-1].targets) == 1 \
                            and isinstance(block[-1].targets[0], ast.Name) and isinstance(block[-1].value, ast.Constant) \
                            and type(block[-1].value.value) is bool:
                        return block[-1].targets[0].id, block[-1].value.value
                    return None, None
                t1, k1 = flag_of(st.body)
                t2, k2 = flag_of(st.orelse)
                tt = nxt.test
                neg = isinstance(tt, ast.UnaryOp) and isinstance(tt.op, ast.Not)
                tname = tt.operand.id if neg and isinstance(tt.operand, ast.Name) else tt.id if isinstance(tt, ast.Name) else None
                if t1 is not None and t1 == t2 == tname and sum(
                        1 for n in ast.walk(ctx["root"]) if isinstance(n, ast.Name) and n.id == tname) == 3:
                    def arm(block, k):
                        fires = (not k) if neg else k
                        extra = [ast.parse(ast.unparse(x)).body[0] for x in nxt.body] if fires else []
                        return list(block[:-1]) + extra
                    nb, no = arm(st.body, k1), arm(st.orelse, k2)
                    out.append(ast.If(test=st.test, body=nb or [ast.Pass()], orelse=no, lineno=st.lineno, col_offset=0))
                    changed = True
                    i += 2
                    continue
            # if c: ..; x = E1  else: ..; x = E2     followed by     if TEST(x): X else: Y
            # where TEST reads x and literals only and E1 / E2 are (conditional expressions of) literals that decide it:
            # the second ``if`` is threaded into the arms of the first
            if isinstance(st, ast.If) and st.orelse and isinstance(nxt, ast.If):
                def flag_name(block):
                    if block and isinstance(block[-1], ast.Assign) and len(block[-1].targets) == 1 \
                            and isinstance(block[-1].targets[0], ast.Name):
                        return block[-1].targets[0].id
                    if block and isinstance(block[-1], ast.If) and block[-1].orelse:
                        a_, b_ = flag_name(block[-1].body), flag_name(block[-1].orelse)
                        return a_ if a_ is not None and a_ == b_ else None
                    return None

                def thread(block, x, drop):
                    """block with the continuation the value of x selects appended on every path; None when undecided"""
                    last = block[-1]
                    if isinstance(last, ast.Assign):
                        vs = _const_set(last.value)
                        d = _decide_test(nxt.test, x, vs) if vs else None
                        if d is None:
                            return None
                        seen.add(d)
                        cont = [ast.parse(ast.unparse(x_)).body[0] for x_ in (nxt.body if d else nxt.orelse)]
                        return list(block[:-1] if drop else block) + cont
                    nb, no = thread(last.body, x, drop), thread(last.orelse, x, drop)
                    if nb is None or no is None:
                        return None
                    return list(block[:-1]) + [ast.If(test=last.test, body=nb or [ast.Pass()], orelse=no, lineno=last.lineno,
                                                      col_offset=0)]
                x1, x2 = flag_name(st.body), flag_name(st.orelse)
                if x1 is not None and x1 == x2 and ctx.get("root") is not None:
                    # a flag that is read by this test only is dropped with its assignments
                    n_assign = sum(1 for b_ in (st.body, st.orelse) for n_ in ast.walk(ast.Module(body=b_, type_ignores=[]))
                                   if isinstance(n_, ast.Name) and n_.id == x1)
                    total = sum(1 for n_ in ast.walk(ctx["root"]) if isinstance(n_, ast.Name) and n_.id == x1)
                    test_loads = _count_loads(nxt.test, x1)
                    only_stores = all(isinstance(n_.ctx, ast.Store) for b_ in (st.body, st.orelse)
                                      for n_ in ast.walk(ast.Module(body=b_, type_ignores=[]))
                                      if isinstance(n_, ast.Name) and n_.id == x1)
                    drop = only_stores and total == n_assign + test_loads and _count_loads(nxt, x1) == test_loads
                    seen = set()
                    nb, no = thread(st.body, x1, drop), thread(st.orelse, x1, drop)
                    if nb is not None and no is not None and len(seen) == 2:
                        out.append(ast.If(test=st.test, body=nb or [ast.Pass()], orelse=no, lineno=st.lineno, col_offset=0))
                        changed = True
                        i += 2
                        continue
            if isinstance(st, ast.Return) and isinstance(st.value, ast.Call) and st.value.args \
                    and isinstance(st.value.args[0], ast.IfExp) and (
                        isinstance(st.value.func, ast.Name) or (isinstance(st.value.func, ast.Attribute)
                                                                and isinstance(st.value.func.value, ast.Name))):
                # return F(A if c else B, rest)  ==  if c: return F(A, rest) else: return F(B, rest)
                # (looking F up has no effect; c is the first thing evaluated either way; rest follows the chosen arm)
                c_ = st.value
                e = c_.args[0]

                def mk_(arm):
                    return ast.Return(value=ast.Call(func=_copy_expr(c_.func), args=[arm] + [_copy_expr(a_) for a_ in c_.args[1:]],
                                                     keywords=[ast.keyword(arg=k_.arg, value=_copy_expr(k_.value)) for k_ in c_.keywords]),
                                      lineno=st.lineno, col_offset=0)
                out.append(ast.If(test=e.test, body=[mk_(e.body)], orelse=[mk_(e.orelse)], lineno=st.lineno, col_offset=0))
                changed = True
                i += 1
                continue
            if isinstance(st, ast.Return) and isinstance(st.value, ast.Tuple) and st.value.elts \
                    and isinstance(st.value.elts[0], ast.IfExp) and not any(isinstance(x_, ast.Starred) for x_ in st.value.elts):
                # return (A if c else B, rest)  ==  if c: return (A, rest) else: return (B, rest)    (c is evaluated first)
                e = st.value.elts[0]
                mk_t = lambda arm: ast.Return(value=ast.Tuple(elts=[arm] + [_copy_expr(x_) for x_ in st.value.elts[1:]],
                                                               ctx=ast.Load()), lineno=st.lineno, col_offset=0)
                out.append(ast.If(test=e.test, body=[mk_t(e.body)], orelse=[mk_t(e.orelse)], lineno=st.lineno, col_offset=0))
                changed = True
                i += 1
                continue
            if isinstance(st, ast.Return) and isinstance(st.value, ast.IfExp):
                e = st.value
                out.append(ast.If(test=e.test, body=[ast.Return(value=e.body, lineno=st.lineno, col_offset=0)],
                                  orelse=[ast.Return(value=e.orelse, lineno=st.lineno, col_offset=0)],
                                  lineno=st.lineno, col_offset=0))
                changed = True
                i += 1
                continue
            if isinstance(st, ast.If):
                if len(st.body) == 1 and len(st.orelse) == 1 and isinstance(st.body[0], ast.Assign) \
                        and isinstance(st.orelse[0], ast.Assign) and len(st.body[0].targets) == 1 \
                        and len(st.orelse[0].targets) == 1 \
                        and ast.dump(st.body[0].targets[0]) == ast.dump(st.orelse[0].targets[0]) \
                        and isinstance(st.body[0].targets[0], ast.Name):
                    out.append(ast.Assign(targets=st.body[0].targets,
                                          value=ast.IfExp(test=st.test, body=st.body[0].value, orelse=st.orelse[0].value),
                                          lineno=st.lineno, col_offset=0))
                    changed = True
                    i += 1
                    continue
                if isinstance(nxt, ast.Return) and isinstance(nxt.value, ast.Name) and st.orelse:
                    r = nxt.value.id
                    if _assigns_last(st, r) and not any(_count_loads(s, r) for s in stmts[i + 2:]) \
                            and _count_loads(st, r) == 0:
                        out.append(_to_returns(st, r))
                        changed = True
                        i += 2
                        continue
            out.append(st)
            i += 1
        stmts = out
    return stmts


def _neg_test(t):
    if isinstance(t, ast.UnaryOp) and isinstance(t.op, ast.Not):
        return t.operand
    return ast.UnaryOp(op=ast.Not(), operand=t)


def _exact_ne(c):
    """``a != b`` is ``not (a == b)`` for certain when one side is a literal or a ``len(..)``"""
    def lit(e):
        return isinstance(e, ast.Constant) or (isinstance(e, ast.Call) and isinstance(e.func, ast.Name) and e.func.id == "len") \
            or (isinstance(e, ast.Name) and e.id.isupper() and len(e.id) > 2)
    return lit(c.left) or lit(c.comparators[0])


def _neg_cmp(t):
    """positive form of a negative comparison (``is not`` / ``not in`` / ``!=`` against a literal), else None"""
    if isinstance(t, ast.Compare) and len(t.ops) == 1:
        op = t.ops[0]
        if isinstance(op, ast.IsNot):
            return ast.Compare(left=t.left, ops=[ast.Is()], comparators=t.comparators)
        if isinstance(op, ast.NotIn):
            return ast.Compare(left=t.left, ops=[ast.In()], comparators=t.comparators)
        if isinstance(op, ast.NotEq) and _exact_ne(t):
            return ast.Compare(left=t.left, ops=[ast.Eq()], comparators=t.comparators)
    return None


def _int_typed(e, root, depth=0):
    """expression certainly an int: int literal, int(..) / len(..), or a local whose every binding is one of these"""
    if isinstance(e, ast.Constant):
        # '<RF ..>' is the normal form this module writes for arithmetic over provably int-typed names only
        return type(e.value) is int or (isinstance(e.value, str) and e.value.startswith("<RF "))
    if isinstance(e, ast.Call) and isinstance(e.func, ast.Name) and e.func.id in ("int", "len") and len(e.args) == 1:
        return True
    if isinstance(e, ast.BinOp) and isinstance(e.op, (ast.Add, ast.Sub, ast.Mult)):
        return _int_typed(e.left, root, depth) and _int_typed(e.right, root, depth)
    if isinstance(e, ast.UnaryOp) and isinstance(e.op, ast.USub):
        return _int_typed(e.operand, root, depth)
    if isinstance(e, ast.Name) and root is not None and depth < 5:
        defs = []
        for n in ast.walk(root):
            if isinstance(n, ast.Assign) and any(isinstance(t, ast.Name) and t.id == e.id for t in n.targets):
                defs.append(n.value)
            elif isinstance(n, ast.Assign) and len(n.targets) == 1 and isinstance(n.targets[0], (ast.Tuple, ast.List)) \
                    and any(isinstance(t, ast.Name) and t.id == e.id for t in n.targets[0].elts):
                # a, b = X, Y : element-wise; anything else that unpacks into the name is unknown
                if isinstance(n.value, (ast.Tuple, ast.List)) and len(n.value.elts) == len(n.targets[0].elts) \
                        and not any(isinstance(x, ast.Starred) for x in n.targets[0].elts + n.value.elts):
                    for t, v in zip(n.targets[0].elts, n.value.elts):
                        if isinstance(t, ast.Name) and t.id == e.id:
                            defs.append(v)
                else:
                    return False
            elif isinstance(n, (ast.AugAssign, ast.For, ast.With, ast.comprehension, ast.arg, ast.NamedExpr)):
                tg = n.target if hasattr(n, "target") else None
                if isinstance(n, ast.arg) and n.arg == e.id:
                    return False
                if tg is not None and any(isinstance(x, ast.Name) and x.id == e.id for x in ast.walk(tg)):
                    if isinstance(n, (ast.For, ast.comprehension)) and isinstance(tg, ast.Name) and isinstance(n.iter, ast.Call) \
                            and isinstance(n.iter.func, ast.Name) and n.iter.func.id in ("xrange", "range"):
                        defs.append(ast.Constant(value=0))
                        continue
                    if isinstance(n, ast.AugAssign) and isinstance(n.op, (ast.Add, ast.Sub, ast.Mult)) \
                            and _int_typed(n.value, root, depth + 1):
                        continue
                    return False
        return bool(defs) and all(_int_typed(d, root, depth + 1) for d in defs)
    return False


_ORD_NEG = {ast.Lt: ast.GtE, ast.LtE: ast.Gt, ast.Gt: ast.LtE, ast.GtE: ast.Lt}


def _is_neg(t):
    return isinstance(t, ast.UnaryOp) and isinstance(t.op, ast.Not)


def _len_once(st):
    """``if len(x) == 1: .. elif len(x) == 0: ..`` (a chain of tests of the size of one plain name against literals):
    the size is taken once, before the chain.  Returns the new binding (tests rewritten in place) or None."""
    def size_test(t):
        if isinstance(t, ast.UnaryOp) and isinstance(t.op, ast.Not):
            return size_test(t.operand)
        if isinstance(t, ast.Compare) and len(t.ops) == 1 and isinstance(t.left, ast.Call) and isinstance(t.left.func, ast.Name) \
                and t.left.func.id == "len" and len(t.left.args) == 1 and not t.left.keywords \
                and isinstance(t.left.args[0], ast.Name) and isinstance(t.comparators[0], ast.Constant) \
                and type(t.comparators[0].value) is int:
            return t.left.args[0].id
        return None
    x = size_test(st.test)
    if x is None:
        return None
    chain = [st]
    cur = st
    while len(cur.orelse) == 1 and isinstance(cur.orelse[0], ast.If) and size_test(cur.orelse[0].test) == x:
        cur = cur.orelse[0]
        chain.append(cur)
    if len(chain) < 2:
        return None
    tmp = "len__%s" % x

    class R(ast.NodeTransformer):
        def visit_Call(self, node):
            if isinstance(node.func, ast.Name) and node.func.id == "len" and len(node.args) == 1 \
                    and isinstance(node.args[0], ast.Name) and node.args[0].id == x:
                return ast.Name(id=tmp, ctx=ast.Load())
            return node
    for c in chain:
        c.test = R().visit(c.test)
    return ast.Assign(targets=[ast.Name(id=tmp, ctx=ast.Store())], value=ast.Call(
        func=ast.Name(id="len", ctx=ast.Load()), args=[ast.Name(id=x, ctx=ast.Load())], keywords=[]),
        lineno=st.lineno, col_offset=0)


def _breaks_to_returns(stmts):
    """``break`` of the enclosing loop (not of a nested one) -> ``return``"""
    out = []
    for st in stmts:
        if isinstance(st, ast.Break):
            out.append(ast.Return(value=None, lineno=st.lineno, col_offset=0))
            continue
        if isinstance(st, ast.If):
            st.body = _breaks_to_returns(st.body)
            st.orelse = _breaks_to_returns(st.orelse)
        elif isinstance(st, ast.With):
            st.body = _breaks_to_returns(st.body)
        elif isinstance(st, ast.Try) and not st.finalbody:
            st.body = _breaks_to_returns(st.body)
            st.orelse = _breaks_to_returns(st.orelse)
            for h in st.handlers:
                h.body = _breaks_to_returns(h.body)
        elif isinstance(st, (ast.For, ast.While)):
            st.orelse = _breaks_to_returns(st.orelse)
        out.append(st)
    return out


def _private_lists(fn):
    """locals that are only ever bound to a fresh list (display or comprehension) and only used through append / remove /
    iteration / truth / len / whole-slice reset: nobody else can hold a reference to such a list"""
    parents = {}
    for p_ in ast.walk(fn):
        for c_ in ast.iter_child_nodes(p_):
            parents[c_] = p_
    verdict = {}
    own_scope = {}
    for n in ast.walk(fn):
        if isinstance(n, ast.arg):
            verdict[n.arg] = False
        if isinstance(n, (ast.Global, ast.Nonlocal)):
            for nm in n.names:
                verdict[nm] = False
        if not isinstance(n, ast.Name) or verdict.get(n.id) is False:
            continue
        p_ = parents.get(n)
        ok = False
        # a list that a nested function or lambda can reach may be changed by calling that function
        q_ = p_
        scopes = 0
        while q_ is not None and q_ is not fn:
            if isinstance(q_, FuncTypes + (ast.Lambda,)):
                scopes += 1
            q_ = parents.get(q_)
        own_scope.setdefault(n.id, set()).add(scopes)
        if isinstance(n.ctx, ast.Store):
            ok = isinstance(p_, ast.Assign) and len(p_.targets) == 1 and p_.targets[0] is n \
                and isinstance(p_.value, (ast.List, ast.ListComp))
            if ok:
                verdict.setdefault(n.id, True)
        elif isinstance(n.ctx, ast.Load):
            if isinstance(p_, ast.Attribute) and p_.attr in ("append", "remove", "clear", "pop", "insert", "extend") \
                    and isinstance(parents.get(p_), ast.Call) and parents[p_].func is p_ \
                    and isinstance(parents.get(parents[p_]), ast.Expr):
                ok = True
            elif isinstance(p_, (ast.For, ast.comprehension)) and p_.iter is n:
                ok = True
            elif isinstance(p_, (ast.If, ast.While, ast.IfExp)) and p_.test is n:
                ok = True
            elif isinstance(p_, ast.UnaryOp) and isinstance(p_.op, ast.Not):
                ok = True
            elif isinstance(p_, ast.BoolOp):
                # an operand of and / or is only tested when the whole expression is (``x = a or b`` hands the list on)
                top = p_
                while isinstance(parents.get(top), ast.BoolOp):
                    top = parents[top]
                up = parents.get(top)
                ok = (isinstance(up, (ast.If, ast.While, ast.IfExp, ast.Assert)) and up.test is top) or (
                    isinstance(up, ast.UnaryOp) and isinstance(up.op, ast.Not))
            elif isinstance(p_, ast.Call) and isinstance(p_.func, ast.Name) and p_.func.id == "len" and p_.args == [n]:
                ok = True
            elif isinstance(p_, ast.Subscript) and p_.value is n and isinstance(p_.slice, ast.Slice) \
                    and p_.slice.lower is None and p_.slice.upper is None and p_.slice.step is None \
                    and isinstance(p_.ctx, (ast.Store, ast.Del)):
                ok = True
        if not ok:
            verdict[n.id] = False
    return {k for k, v in verdict.items() if v and len(own_scope.get(k, {0})) == 1}, parents


def _private_list_flag(e, root):
    """``e`` is a truth function (not / and / or, ``len(L) <cmp> literal``, bare L in a boolean position) of private
    lists only: it cannot raise, has no effect, and its value changes only when one of the lists is mutated through
    its own methods.  Returns the set of list names, or None."""
    names = set()

    def ok(x, boolean):
        if isinstance(x, ast.UnaryOp) and isinstance(x.op, ast.Not):
            return ok(x.operand, True)
        if isinstance(x, ast.BoolOp):
            return all(ok(v, True) for v in x.values) and boolean
        if isinstance(x, ast.Name) and boolean:
            names.add(x.id)
            return True
        if isinstance(x, ast.Compare) and len(x.ops) == 1 and isinstance(x.ops[0], (ast.Eq, ast.NotEq, ast.Lt, ast.LtE, ast.Gt, ast.GtE)):
            for a, b in ((x.left, x.comparators[0]), (x.comparators[0], x.left)):
                if isinstance(a, ast.Call) and isinstance(a.func, ast.Name) and a.func.id == "len" and len(a.args) == 1 \
                        and isinstance(a.args[0], ast.Name) and isinstance(b, ast.Constant) and type(b.value) is int:
                    names.add(a.args[0].id)
                    return True
        return False
    # the value is the truth value itself only under ``not`` / a comparison: ``a or b`` yields an operand
    top_boolean = isinstance(e, (ast.Compare,)) or (isinstance(e, ast.UnaryOp) and isinstance(e.op, ast.Not))
    if not top_boolean or not ok(e, True) or not names:
        return None
    private, _ = _private_lists(root)
    return names if names <= private else None


def _private_list_resets(fn):
    """for a private list L (see above): ``del L[:]`` / ``L[:] = []`` / ``L.clear()`` outside any iteration over L is
    ``L = []``; ``if L: <loops over L and resets of L>`` is its body (nothing happens for an empty L)"""
    private, parents = _private_lists(fn)
    if not private:
        return False

    def reset_of(st):
        if isinstance(st, ast.Delete) and len(st.targets) == 1:
            t = st.targets[0]
        elif isinstance(st, ast.Assign) and len(st.targets) == 1 and isinstance(st.value, ast.List) and not st.value.elts:
            t = st.targets[0]
            if isinstance(t, ast.Name) and t.id in private:
                return t.id
        elif isinstance(st, ast.Expr) and isinstance(st.value, ast.Call) and isinstance(st.value.func, ast.Attribute) \
                and st.value.func.attr == "clear" and not st.value.args and isinstance(st.value.func.value, ast.Name) \
                and st.value.func.value.id in private:
            return st.value.func.value.id
        else:
            return None
        if isinstance(t, ast.Subscript) and isinstance(t.value, ast.Name) and t.value.id in private \
                and isinstance(t.slice, ast.Slice) and t.slice.lower is None and t.slice.upper is None and t.slice.step is None:
            return t.value.id
        return None

    def iterating(st, name):
        p_ = parents.get(st)
        while p_ is not None and p_ is not fn:
            if isinstance(p_, ast.For) and isinstance(p_.iter, ast.Name) and p_.iter.id == name and st not in p_.orelse:
                return True
            if isinstance(p_, FuncTypes):
                return False
            p_ = parents.get(p_)
        return False
    changed = False
    deep = []
    for n in ast.walk(fn):
        for fld in ("body", "orelse", "finalbody"):
            b = getattr(n, fld, None)
            if isinstance(b, list) and b and isinstance(b[0], ast.stmt):
                deep.append(b)
    for blk in deep:
        for i, st in enumerate(list(blk)):
            nm = reset_of(st)
            if nm is not None and not isinstance(st, ast.Assign) and not iterating(st, nm):
                blk[i] = ast.Assign(targets=[ast.Name(id=nm, ctx=ast.Store())], value=ast.List(elts=[], ctx=ast.Load()),
                                    lineno=st.lineno, col_offset=0)
                parents[blk[i]] = parents.get(st)
                changed = True
    for blk in deep:
        i = 0
        while i < len(blk):
            st = blk[i]
            if isinstance(st, ast.If) and not st.orelse and isinstance(st.test, ast.Name) and st.test.id in private \
                    and all((isinstance(b, ast.For) and not b.orelse and isinstance(b.iter, ast.Name)
                             and b.iter.id == st.test.id) or reset_of(b) == st.test.id for b in st.body) \
                    and not iterating(st, st.test.id):
                blk[i:i + 1] = st.body
                changed = True
                continue
            i += 1
    return changed


def _norm_region(stmts, kind, ctx):
    """kind: 'func' (falls off into ``return None``), 'loop' (falls off into ``continue``) or None."""
    stmts = _norm_simple(list(stmts), ctx)
    # try / except (all handlers leave) / else: B   ==   try / except ; B
    out = []
    for st in stmts:
        if isinstance(st, ast.Try) and st.orelse and not st.finalbody and st.handlers \
                and all(_always_leaves(h.body) for h in st.handlers):
            rest = st.orelse
            st.orelse = []
            out.append(st)
            out.extend(rest)
        else:
            out.append(st)
    stmts = out
    # try: BODY except ..(all leave)  ;  return <literal or name>     ->   the return moves to the end of BODY
    for i, st in enumerate(stmts):
        if isinstance(st, ast.Try) and not st.orelse and not st.finalbody and st.handlers \
                and all(_always_leaves(h.body) for h in st.handlers) and i + 1 < len(stmts) \
                and isinstance(stmts[i + 1], ast.Return) and (stmts[i + 1].value is None or isinstance(
                    stmts[i + 1].value, (ast.Constant, ast.Name))) and not _always_leaves(st.body):
            st.body = list(st.body) + [stmts[i + 1]]
            stmts = stmts[:i + 1] + stmts[i + 2:]
            break
    # with X: BODY  ;  return <literal or name>     ->   the return moves to the end of BODY (leaving the block by return or
    # by falling off its end runs the same __exit__; a plain name has the same value before and after it)
    for i, st in enumerate(stmts):
        if isinstance(st, ast.With) and i + 1 < len(stmts) and isinstance(stmts[i + 1], ast.Return) \
                and (stmts[i + 1].value is None or isinstance(stmts[i + 1].value, (ast.Constant, ast.Name))) \
                and not _always_leaves(st.body) \
                and not (isinstance(stmts[i + 1].value, ast.Name) and any(
                    isinstance(v_, ast.Name) and v_.id == stmts[i + 1].value.id for it_ in st.items
                    if it_.optional_vars is not None for v_ in ast.walk(it_.optional_vars))):
            st.body = list(st.body) + [stmts[i + 1]]
            stmts = stmts[:i + 1] + stmts[i + 2:]
            break
    # a short tail that always leaves, after an if/else whose arms both fall through, is copied into both arms
    for i, st in enumerate(stmts):
        if isinstance(st, ast.If) and st.orelse and not _always_leaves(st.body) and not _always_leaves(st.orelse):
            rest = stmts[i + 1:]
            if 1 <= len(rest) <= 2 and _always_leaves(rest) and not any(
                    isinstance(r, (ast.For, ast.While, ast.Try, ast.With, ast.If) + FuncTypes) for r in rest):
                st.body = list(st.body) + copy.deepcopy(rest)
                st.orelse = list(st.orelse) + copy.deepcopy(rest)
                stmts = stmts[:i + 1]
                break
            # the same where falling off the end is leaving (end of a function, end of a loop body): a tail of one or
            # two simple statements
            if kind in ("func", "loop") and 1 <= len(rest) <= 2 and not any(
                    isinstance(r, (ast.For, ast.While, ast.Try, ast.With, ast.If) + FuncTypes + (ast.ClassDef,)) for r in rest) \
                    and st.orelse:
                st.body = list(st.body) + copy.deepcopy(rest)
                st.orelse = list(st.orelse) + copy.deepcopy(rest)
                stmts = stmts[:i + 1]
                break
            # the same at the end of a function (falling off the end is leaving): one small loop may be the tail
            if kind == "func" and len(rest) == 1 and isinstance(rest[0], ast.For) and not rest[0].orelse \
                    and sum(1 for _n in ast.walk(rest[0]) if isinstance(_n, ast.stmt)) <= 4 \
                    and not any(isinstance(_n, FuncTypes + (ast.Lambda,)) for _n in ast.walk(rest[0])):
                st.body = list(st.body) + copy.deepcopy(rest)
                st.orelse = list(st.orelse) + copy.deepcopy(rest)
                stmts = stmts[:i + 1]
                break
    # nest: everything after an ``if`` with a leaving arm belongs to the other arm
    for i, st in enumerate(stmts):
        if isinstance(st, ast.If):
            rest = stmts[i + 1:]
            bl, ol = _always_leaves(st.body), _always_leaves(st.orelse)
            if rest and (bl or ol):
                if bl and ol:
                    pass
                elif bl:
                    st.orelse = list(st.orelse) + rest
                else:
                    st.body = list(st.body) + rest
                stmts = stmts[:i + 1]
                break
    res = []
    defined = set(ctx.get("defined", ()))
    for idx, st in enumerate(stmts):
        tail = idx == len(stmts) - 1
        k = kind if tail else None
        ctx = dict(ctx, defined=frozenset(defined))
        if isinstance(st, ast.Assign):
            for t in st.targets:
                if isinstance(t, ast.Name):
                    defined.add(t.id)
        if isinstance(st, ast.If):
            pre = _len_once(st)
            if pre is not None:
                res.append(pre)
                defined.add(pre.targets[0].id)
            st.body = _norm_region(st.body, k, ctx)
            st.orelse = _norm_region(st.orelse, k, ctx)
            if _is_neg(st.test) and st.orelse and st.body:
                st = ast.If(test=st.test.operand, body=st.orelse, orelse=st.body, lineno=st.lineno, col_offset=0)
            elif _neg_cmp(st.test) is not None and st.orelse and st.body:
                st = ast.If(test=_neg_cmp(st.test), body=st.orelse, orelse=st.body, lineno=st.lineno, col_offset=0)
            elif isinstance(st.test, ast.Compare) and len(st.test.ops) == 1 and type(st.test.ops[0]) in _ORD_NEG \
                    and st.orelse and st.body and _int_typed(st.test.left, ctx.get("root")) \
                    and _int_typed(st.test.comparators[0], ctx.get("root")):
                # on ints ``not (a < b)`` is ``a >= b``: keep the strict form
                if isinstance(st.test.ops[0], (ast.LtE, ast.GtE)):
                    neg = ast.Compare(left=st.test.left, ops=[_ORD_NEG[type(st.test.ops[0])]()], comparators=st.test.comparators)
                    st = ast.If(test=neg, body=st.orelse, orelse=st.body, lineno=st.lineno, col_offset=0)
            elif not st.body and st.orelse:
                st = ast.If(test=_neg_test(st.test), body=st.orelse, orelse=[], lineno=st.lineno, col_offset=0)
            if not st.body and not st.orelse:
                if _has_call(st.test) or True:
                    st = ast.Expr(value=st.test, lineno=st.lineno, col_offset=0)
            elif not st.orelse and len(st.body) == 1 and isinstance(st.body[0], ast.If) and not st.body[0].orelse:
                inner = st.body[0]
                st = ast.If(test=ast.BoolOp(op=ast.And(), values=[st.test, inner.test]), body=inner.body, orelse=[],
                            lineno=st.lineno, col_offset=0)
            # if c: x = E   (x certainly bound)   ->   x = E if c else x
            if isinstance(st, ast.If) and not st.orelse and len(st.body) == 1 and isinstance(st.body[0], ast.Assign) \
                    and len(st.body[0].targets) == 1 and isinstance(st.body[0].targets[0], ast.Name) \
                    and st.body[0].targets[0].id in defined:
                a = st.body[0]
                st = ast.Assign(targets=a.targets, value=ast.IfExp(test=st.test, body=a.value, orelse=ast.Name(
                    id=a.targets[0].id, ctx=ast.Load())), lineno=st.lineno, col_offset=0)
        elif isinstance(st, (ast.For, ast.While)):
            c2 = dict(ctx, in_loop=True)
            if k == "func" and not st.orelse:
                # the loop is the last thing the function does: leaving it is returning
                st.body = _breaks_to_returns(st.body)
            st.body = _norm_region(st.body, "loop", c2) or [ast.Pass()]
            st.orelse = _norm_region(st.orelse, None, ctx)
            if isinstance(st, ast.While) and not st.orelse and len(st.body) == 1 and isinstance(st.body[0], ast.If):
                inner = st.body[0]
                if len(inner.orelse) == 1 and isinstance(inner.orelse[0], ast.Break) and inner.body:
                    st.test = ast.BoolOp(op=ast.And(), values=[st.test, inner.test])
                    st.body = inner.body
                elif len(inner.body) == 1 and isinstance(inner.body[0], ast.Break) and inner.orelse:
                    st.test = ast.BoolOp(op=ast.And(), values=[st.test, _neg_test(inner.test)])
                    st.body = inner.orelse
        elif isinstance(st, ast.With):
            st.body = _norm_region(st.body, k, ctx) or [ast.Pass()]
        elif isinstance(st, ast.Try):
            # ``else`` of a try whose handlers all leave is the same as code after the try only if no handler
            # could catch what it raises: not assumed.  Bodies are normalised in place.
            st.body = _norm_region(st.body, k if not st.orelse else None, ctx) or [ast.Pass()]
            for h in st.handlers:
                h.body = _norm_region(h.body, k, ctx) or [ast.Pass()]
            st.orelse = _norm_region(st.orelse, None, ctx)
            st.finalbody = _norm_region(st.finalbody, None, ctx)
        elif isinstance(st, FuncTypes):
            st.body = _norm_region(st.body, "func", {"bound": ctx.get("bound", frozenset()), "root": ctx.get("root"),
                                                      "defined": frozenset(_scope_params(st))}) or [ast.Pass()]
        res.append(st)
    # redundant terminators
    if res and kind == "func" and _is_none_return(res[-1]):
        res.pop()
    elif res and kind == "loop" and isinstance(res[-1], ast.Continue):
        res.pop()
    return _sort_independent(res, ctx.get("bound", frozenset()))


def _total_atom(t):
    """atoms whose evaluation can neither raise nor have an effect"""
    if isinstance(t, ast.Compare) and len(t.ops) == 1 and isinstance(t.ops[0], (ast.Is, ast.IsNot)) \
            and _simple_arg(t.left) and _simple_arg(t.comparators[0]):
        return True
    if isinstance(t, ast.Call) and isinstance(t.func, ast.Name) and t.func.id in ("isinstance", "callable") \
            and all(_simple_arg(a) or (isinstance(a, ast.Tuple) and all(_simple_arg(e) for e in a.elts)) for a in t.args):
        return True
    root = _CTX.get("dt_root")
    if root is not None and isinstance(t, ast.Compare) and len(t.ops) == 1 \
            and isinstance(t.ops[0], (ast.Eq, ast.NotEq, ast.Lt, ast.LtE, ast.Gt, ast.GtE)) \
            and all(isinstance(x, (ast.Name, ast.Constant)) for x in (t.left, t.comparators[0])) \
            and _int_typed(t.left, root) and _int_typed(t.comparators[0], root):
        return True         # comparison of two ints
    return False


def _literals(test, pol):
    """[(paths)] each path a list of (atom, polarity) making ``test`` evaluate to ``pol`` (short-circuit order)"""
    if isinstance(test, ast.UnaryOp) and isinstance(test.op, ast.Not):
        return _literals(test.operand, not pol)
    if isinstance(test, ast.BoolOp):
        conj = isinstance(test.op, ast.And)
        if conj == pol:
            # all values must be ``pol``
            paths = [[]]
            for v in test.values:
                paths = [p + q for p in paths for q in _literals(v, pol)]
            return paths
        out = []
        prefix = [[]]
        for v in test.values:
            for p in prefix:
                for q in _literals(v, pol):
                    out.append(p + q)
            prefix = [p + q for p in prefix for q in _literals(v, not pol)]
        return out
    if isinstance(test, ast.Compare) and len(test.ops) == 1 and type(test.ops[0]) in (ast.IsNot, ast.NotEq, ast.NotIn):
        flip = {ast.IsNot: ast.Is, ast.NotEq: ast.Eq, ast.NotIn: ast.In}[type(test.ops[0])]
        return [[(ast.dump(ast.Compare(left=test.left, ops=[flip()], comparators=test.comparators)), not pol,
                  _total_atom(test))]]
    return [[(ast.dump(test), pol, _total_atom(test))]]


_ISI = {}


def _isinstance_dump(var, cls):
    return ast.dump(ast.Call(func=ast.Name(id="isinstance", ctx=ast.Load()),
                             args=[ast.Name(id=var, ctx=ast.Load()), ast.Name(id=cls, ctx=ast.Load())], keywords=[]))


def _isinstance_atom(dump):
    """(variable, class) when the dumped atom is ``isinstance(<name>, <Name>)``"""
    if "isinstance" not in dump:
        return None
    if dump not in _ISI:
        import re
        m = re.fullmatch(r"Call\(func=Name\(id='isinstance', ctx=Load\(\)\), args=\[Name\(id='(\w+)', ctx=Load\(\)\), "
                         r"Name\(id='(\w+)', ctx=Load\(\)\)\], keywords=\[\]\)", dump)
        _ISI[dump] = (m.group(1), m.group(2)) if m else None
    return _ISI[dump]


def _is_dt(st):
    return isinstance(st, ast.If) and isinstance(st.test, ast.Tuple) and st.test.elts \
        and isinstance(st.test.elts[0], ast.Constant) and st.test.elts[0].value == "<DT>"


def _decision_table(stmts, hier=None):
    """A trailing if/else tree whose inner nodes are bare ifs is turned into a sorted table of
    (literals -> leaf block); leaves merged over total atoms."""
    if not stmts or not isinstance(stmts[-1], ast.If):
        return stmts
    root = stmts[-1]
    if not root.orelse or _is_dt(root):
        return stmts
    rows = []

    def walk(block, lits):
        if len(block) == 1 and isinstance(block[0], ast.If) and block[0].orelse and not _is_dt(block[0]):
            node = block[0]
            for p in _literals(node.test, True):
                walk(node.body, lits + p)
            for p in _literals(node.test, False):
                walk(node.orelse, lits + p)
        else:
            rows.append((lits, block))
    walk([root], [])
    if len(rows) < 3:
        return stmts
    # x == k (x a plain name, k an int literal; total atoms only): one of them true makes the others false
    import re as _re
    eq_pat = _re.compile(r"^Compare\(left=(?:Constant\(value=(-?\d+)\)|Name\(id='(\w+)', ctx=Load\(\)\)), ops=\[Eq\(\)\], "
                         r"comparators=\[(?:Constant\(value=(-?\d+)\)|Name\(id='(\w+)', ctx=Load\(\)\))\]\)$")

    def eq_atom(a):
        m = eq_pat.match(a) if isinstance(a, str) else None
        if not m:
            return None
        k = m.group(1) if m.group(1) is not None else m.group(3)
        v = m.group(2) if m.group(2) is not None else m.group(4)
        if k is None or v is None:
            return None
        return v, int(k)
    eq_universe = {}
    for lits, _b in rows:
        for a, pol, total in lits:
            e_ = eq_atom(a) if total else None
            if e_ is not None:
                eq_universe.setdefault(e_[0], {})[e_[1]] = a
    table = []
    for lits, block in rows:
        seen = {}
        dead = False
        order = []
        for a, pol, total in lits:
            if a in seen:
                if seen[a] != pol:
                    dead = True
                    break
                continue
            seen[a] = pol
            order.append((a, pol, total))
        if not dead and hier:
            # isinstance(x, Sub) implies isinstance(x, Super)
            extra = []
            for a, pol, total in order:
                info = _isinstance_atom(a)
                if info is None:
                    continue
                var, cls = info
                if pol:
                    for sup in hier.get(cls, ()):
                        extra.append((_isinstance_dump(var, sup), True, True))
                else:
                    for sub, sups in hier.items():
                        if cls in sups:
                            extra.append((_isinstance_dump(var, sub), False, True))
            for a, pol, total in extra:
                if a in seen:
                    if seen[a] != pol:
                        dead = True
                        break
                    continue
                seen[a] = pol
                order.append((a, pol, total))
        if not dead and eq_universe:
            extra = []
            for a, pol, total in order:
                e_ = eq_atom(a) if (total and pol) else None
                if e_ is not None:
                    for k_, a2 in eq_universe.get(e_[0], {}).items():
                        if k_ != e_[1]:
                            extra.append((a2, False, True))
            for a, pol, total in extra:
                if a in seen:
                    if seen[a] != pol:
                        dead = True
                        break
                    continue
                seen[a] = pol
                order.append((a, pol, total))
        if dead:
            continue
        tot = frozenset((a, pol) for a, pol, t in order if t)
        par = tuple((a, pol) for a, pol, t in order if not t)
        table.append([tot, par, ast.dump(ast.Module(body=block, type_ignores=[])), block])
    # merge rows that differ in the polarity of one total atom
    merged = True
    while merged:
        merged = False
        for i in range(len(table)):
            for j in range(i + 1, len(table)):
                a, b = table[i], table[j]
                if a[1] == b[1] and a[2] == b[2]:
                    d = a[0] ^ b[0]
                    if len(d) == 2 and len({x[0] for x in d}) == 1:
                        table[i] = [a[0] & b[0], a[1], a[2], a[3]]
                        del table[j]
                        merged = True
                        break
            if merged:
                break
    table.sort(key=lambda r: (sorted(r[0]), r[1], r[2]))
    node = None
    for tot, par, dump, block in reversed(table):
        test = ast.Tuple(elts=[ast.Constant(value="<DT>"), ast.Constant(value=repr((sorted(tot), par)))], ctx=ast.Load())
        node = ast.If(test=test, body=block, orelse=[node] if node is not None else [], lineno=root.lineno, col_offset=0)
    return stmts[:-1] + [node]


def class_hierarchy(trees):
    """class name -> set of (transitive) base class names, from the given module trees"""
    direct = {}
    for t in trees:
        for n in ast.walk(t):
            if isinstance(n, ast.ClassDef):
                bs = set()
                for b in n.bases:
                    for x in ast.walk(b):
                        if isinstance(x, ast.Name):
                            bs.add(x.id)
                direct.setdefault(n.name, set()).update(bs)
    out = {}
    for c in direct:
        seen, todo = set(), [c]
        while todo:
            x = todo.pop()
            for b in direct.get(x, ()):
                if b not in seen:
                    seen.add(b)
                    todo.append(b)
        out[c] = seen
    return out


def _dt_pass(stmts, hier=None):
    """top-down: trailing if/else trees -> decision tables; then into every inner block"""
    stmts = _decision_table(stmts, hier or {})
    for st in stmts:
        for fld in ("body", "orelse", "finalbody"):
            blk = getattr(st, fld, None)
            if isinstance(blk, list) and blk and isinstance(blk[0], ast.stmt) and not isinstance(st, ast.ClassDef):
                setattr(st, fld, _dt_pass(blk, hier))
        for h in getattr(st, "handlers", []) or []:
            h.body = _dt_pass(h.body, hier)
    return stmts


def _assigns_last(ifnode, r):
    def ok(block):
        if not block:
            return False
        last = block[-1]
        if isinstance(last, ast.Assign) and len(last.targets) == 1 and isinstance(last.targets[0], ast.Name) \
                and last.targets[0].id == r:
            return True
        if isinstance(last, ast.If) and last.orelse:
            return ok(last.body) and ok(last.orelse)
        return False
    return ok(ifnode.body) and ok(ifnode.orelse)


def _to_returns(ifnode, r):
    def conv(block):
        last = block[-1]
        if isinstance(last, ast.Assign):
            return block[:-1] + [ast.Return(value=last.value, lineno=last.lineno, col_offset=0)]
        return block[:-1] + [ast.If(test=last.test, body=conv(last.body), orelse=conv(last.orelse), lineno=last.lineno,
                                    col_offset=0)]
    return ast.If(test=ifnode.test, body=conv(ifnode.body), orelse=conv(ifnode.orelse), lineno=ifnode.lineno, col_offset=0)


def _blind(node, bound):
    """dump with bound names blanked: an ordering key that does not depend on how locals are called"""
    c = copy.deepcopy(node)
    for n in ast.walk(c):
        if isinstance(n, ast.Name) and (n.id in bound or n.id[:1] in "vcfl" and n.id[1:2].isdigit()):
            n.id = "_"
    return ast.dump(c)


def _sort_independent(stmts, bound=frozenset()):
    """Sort maximal runs of adjacent independent simple assignments (pure right-hand sides)."""
    out = []
    run = []

    def simple(st):
        if not (isinstance(st, ast.Assign) and len(st.targets) == 1 and isinstance(st.targets[0], ast.Name)):
            return False
        for c in ast.walk(st.value):
            if isinstance(c, (ast.Yield, ast.YieldFrom, ast.Await, ast.NamedExpr)):
                return False
            if isinstance(c, ast.Call):
                nm = c.func.id if isinstance(c.func, ast.Name) else c.func.attr if isinstance(c.func, ast.Attribute) else None
                if nm not in PURE_CALLS:
                    return False
        return True

    def flush():
        if len(run) > 1:
            # smallest (by name-blind key) topological order of the run: b stays after a when it reads or re-binds a's target
            items = list(run)
            keys = [_blind(s_, bound) for s_ in items]
            deps = {j: set() for j in range(len(items))}
            for j, b_ in enumerate(items):
                loads = {n.id for n in _names(b_.value, ast.Load)}
                for i_, a_ in enumerate(items[:j]):
                    ta = a_.targets[0].id
                    if ta in loads or ta == b_.targets[0].id or b_.targets[0].id in {n.id for n in _names(a_.value, ast.Load)}:
                        deps[j].add(i_)
            done_, order = set(), []
            while len(order) < len(items):
                ready = [j for j in range(len(items)) if j not in done_ and deps[j] <= done_]
                j = min(ready, key=lambda j_: (keys[j_], j_))
                done_.add(j)
                order.append(items[j])
            run[:] = order
        out.extend(run)
        del run[:]
    for st in stmts:
        if simple(st):
            run.append(st)
        else:
            flush()
            out.append(st)
    flush()
    return out


# --------------------------------------------------------------------------- T6 alpha numbering
_COMPS = (ast.GeneratorExp, ast.ListComp, ast.SetComp, ast.DictComp)


def _own_walk(scope):
    """nodes of a function scope: nested function bodies / lambdas are other scopes (their decorators and defaults are
    ours); comprehension targets are comprehension-scoped"""
    stack = list(scope.body) if not isinstance(scope, ast.Lambda) else [scope.body]
    while stack:
        n = stack.pop()
        yield n
        if isinstance(n, FuncTypes):
            stack.extend(n.decorator_list)
            stack.extend(n.args.defaults)
            stack.extend(x for x in n.args.kw_defaults if x is not None)
            continue
        if isinstance(n, ast.Lambda):
            stack.extend(n.args.defaults)
            continue
        stack.extend(ast.iter_child_nodes(n))


def _scope_params(g):
    a = g.args
    out = [x.arg for x in a.posonlyargs + a.args + a.kwonlyargs]
    if a.vararg:
        out.append(a.vararg.arg)
    if a.kwarg:
        out.append(a.kwarg.arg)
    return out


def _own_bound(g):
    comp_targets = set()
    for n in _own_walk(g):
        if isinstance(n, ast.comprehension):
            for t in ast.walk(n.target):
                comp_targets.add(id(t))
    out, declared = set(), set()
    for n in _own_walk(g):
        if isinstance(n, ast.Name) and isinstance(n.ctx, (ast.Store, ast.Del)) and id(n) not in comp_targets:
            out.add(n.id)
        elif isinstance(n, FuncTypes + (ast.ClassDef,)):
            out.add(n.name)
        elif isinstance(n, ast.ExceptHandler) and n.name:
            out.add(n.name)
        elif isinstance(n, (ast.Global, ast.Nonlocal)):
            declared |= set(n.names)
        elif isinstance(n, ast.alias):
            out.add(n.asname or n.name.split(".")[0])
    return out - declared


def _loop_local_names(g, own):
    """own names of scope g bound only as ``for`` targets, read only inside the loop that binds them and not captured
    by a nested function"""
    stores = {}
    targets = {}
    comp_bound = set()          # comprehension variables live in a scope of their own
    for n in _own_walk(g):
        if isinstance(n, ast.comprehension):
            for t in ast.walk(n.target):
                comp_bound.add(id(t))
    for n in _own_walk(g):
        if isinstance(n, ast.Name) and isinstance(n.ctx, (ast.Store, ast.Del)) and n.id in own and id(n) not in comp_bound:
            stores.setdefault(n.id, []).append(n)
        if isinstance(n, ast.For):
            for t in ast.walk(n.target):
                if isinstance(t, ast.Name):
                    targets.setdefault(t.id, set()).add(id(t))
    cand = {name for name, ids in targets.items() if name in own and all(id(x) in ids for x in stores.get(name, []))}
    # captured by nested scopes?
    for n in _own_walk(g):
        if isinstance(n, FuncTypes + (ast.Lambda,)):
            inner = ast.walk(n)
            for x in inner:
                if isinstance(x, ast.Name) and x.id in cand:
                    cand.discard(x.id)
    if not cand:
        return cand
    bad = set()

    def walk(node, active):
        if isinstance(node, FuncTypes + (ast.Lambda,)):
            return
        if isinstance(node, ast.For):
            walk(node.iter, active)
            tn = {t.id for t in ast.walk(node.target) if isinstance(t, ast.Name)}
            for s_ in node.body + node.orelse:
                walk(s_, active | tn)
            return
        if isinstance(node, _COMPS):
            act = set(active)
            for k_, gen in enumerate(node.generators):
                walk(gen.iter, frozenset(act) if k_ else active)
                act |= {t.id for t in ast.walk(gen.target) if isinstance(t, ast.Name)}
                for c_ in gen.ifs:
                    walk(c_, frozenset(act))
            for fld in ("elt", "key", "value"):
                if hasattr(node, fld):
                    walk(getattr(node, fld), frozenset(act))
            return
        if isinstance(node, ast.Name) and isinstance(node.ctx, ast.Load) and node.id in cand and node.id not in active:
            bad.add(node.id)
        for ch in ast.iter_child_nodes(node):
            walk(ch, active)
    for s_ in g.body:
        walk(s_, frozenset())
    return cand - bad


def number(fn, bound=None, locals_too=True):
    """Rename bound names, scope by scope: comprehension / lambda variables and loop-local ``for`` targets by nesting
    depth, other locals by first occurrence (``v<i>`` in the function itself, ``s<k>_<i>`` in its k-th nested
    function).  Parameters of the function itself keep their names."""
    scope_counter = [0]

    def do_scope(g, outer, is_top):
        own = _own_bound(g)
        params = _scope_params(g)
        if is_top:
            own -= set(params)
            prefix = "v"
        else:
            own |= set(params)
            scope_counter[0] += 1
            prefix = "s%d_" % scope_counter[0]
        loop_local = _loop_local_names(g, own)
        fmap = {}

        def fname(name):
            if name not in fmap:
                fmap[name] = "%s%d" % (prefix, len(fmap))
            return fmap[name]

        def lookup(name, env):
            if name in env:
                return env[name]
            if name in own:
                return fname(name) if (locals_too or not is_top) else name
            return outer(name)

        def ren(node, env, depth):
            if isinstance(node, ast.Name):
                node.id = lookup(node.id, env)
                return
            if isinstance(node, _COMPS):
                e2 = dict(env)
                d = depth
                for gen in node.generators:
                    ren(gen.iter, e2, d)
                    for t in ast.walk(gen.target):
                        if isinstance(t, ast.Name):
                            e2[t.id] = "c%d" % d
                            d += 1
                    ren(gen.target, e2, d)
                    for c in gen.ifs:
                        ren(c, e2, d)
                for fld in ("elt", "key", "value"):
                    if hasattr(node, fld):
                        ren(getattr(node, fld), e2, d)
                return
            if isinstance(node, ast.Lambda):
                for dflt in node.args.defaults + [x for x in node.args.kw_defaults if x is not None]:
                    ren(dflt, env, depth)
                e2 = dict(env)
                d = depth
                for a in node.args.posonlyargs + node.args.args + node.args.kwonlyargs + \
                        [x for x in (node.args.vararg, node.args.kwarg) if x]:
                    e2[a.arg] = "l%d" % d
                    a.arg = e2[a.arg]
                    d += 1
                ren(node.body, e2, d)
                return
            if isinstance(node, ast.For):
                ren(node.iter, env, depth)
                e2 = dict(env)
                d = depth
                for t in ast.walk(node.target):
                    if isinstance(t, ast.Name) and t.id in loop_local and t.id not in env:
                        e2[t.id] = "f%d" % d
                        d += 1
                ren(node.target, e2, d)
                for s_ in node.body + node.orelse:
                    ren(s_, e2, d)
                return
            if isinstance(node, FuncTypes):
                for dec in node.decorator_list:
                    ren(dec, env, depth)
                for dflt in node.args.defaults + [x for x in node.args.kw_defaults if x is not None]:
                    ren(dflt, env, depth)
                node.name = lookup(node.name, env)
                do_scope(node, lambda nm, env=env: lookup(nm, env), False)
                return
            if isinstance(node, ast.ExceptHandler) and node.name:
                node.name = lookup(node.name, env)
            for ch in ast.iter_child_nodes(node):
                ren(ch, env, depth)
        if not is_top:
            for a in g.args.posonlyargs + g.args.args + g.args.kwonlyargs + [x for x in (g.args.vararg, g.args.kwarg) if x]:
                a.arg = fname(a.arg)
        for s_ in g.body:
            ren(s_, {}, 0)
    do_scope(fn, lambda nm: nm, True)
    return fn


def _bound(fn):
    from .alpha import bound_names
    return bound_names(fn)


# --------------------------------------------------------------------------- driver
def _inline_all(f, helpers, methods):
    counter = [0]
    for _ in range(4):
        local = {}
        for n in ast.walk(f):
            if isinstance(n, FuncTypes) and n is not f and not n.decorator_list and not n.args.vararg and not n.args.kwarg \
                    and not any(isinstance(x, (ast.Yield, ast.YieldFrom, ast.Global)) for x in ast.walk(n)):
                rets = [x for x in ast.walk(n) if isinstance(x, ast.Return)]
                body = docstring_free(n.body)
                if body and len(rets) <= 1 and (not rets or rets[0] is body[-1]):
                    # called exactly once, never passed around
                    uses = [x for x in ast.walk(f) if isinstance(x, ast.Name) and x.id == n.name and isinstance(x.ctx, ast.Load)]
                    calls = [x for x in ast.walk(f) if isinstance(x, ast.Call) and isinstance(x.func, ast.Name) and x.func.id == n.name]
                    if len(uses) == 1 and len(calls) == 1:
                        local[n.name] = n
        table = dict(helpers)
        table.update(local)
        tr = _InlineExpr(table, {}, methods)
        f.body = [tr.visit(s) for s in f.body]
        changed = tr.changed

        def inl(stmts):
            stmts, ch = _inline_statement_helpers(stmts, table, counter, methods)
            for st in stmts:
                if isinstance(st, ast.ClassDef):
                    continue
                for fld in ("body", "orelse", "finalbody"):
                    blk = getattr(st, fld, None)
                    if isinstance(blk, list) and blk and isinstance(blk[0], ast.stmt):
                        nb, c2 = inl(blk)
                        setattr(st, fld, nb)
                        ch = ch or c2
                for h in getattr(st, "handlers", []) or []:
                    h.body, c2 = inl(h.body)
                    ch = ch or c2
            return stmts, ch
        f.body, ch2 = inl(f.body)
        # drop local helper definitions that are no longer referenced

        def drop(stmts):
            out = []
            for st in stmts:
                if isinstance(st, FuncTypes) and st.name in local and not any(
                        isinstance(x, ast.Name) and x.id == st.name for x in ast.walk(f)):
                    continue
                for fld in ("body", "orelse", "finalbody"):
                    blk = getattr(st, fld, None)
                    if isinstance(blk, list) and blk and isinstance(blk[0], ast.stmt) and not isinstance(st, ast.ClassDef):
                        setattr(st, fld, drop(blk) or [ast.Pass()])
                out.append(st)
            return out
        f.body = drop(f.body)
        if not (changed or ch2):
            break
    return f


_CTX = {"generators": set(), "list_classes": set(), "dict_attrs": set()}


def plain_dict_attrs(tree):
    """attribute names that are only ever bound to a new plain dict ({} / dict()) in the module"""
    good, bad = set(), set()
    for n in ast.walk(tree):
        if isinstance(n, ast.Assign):
            for t in n.targets:
                if isinstance(t, ast.Attribute):
                    v = n.value
                    if (isinstance(v, ast.Dict) and not v.keys) or (isinstance(v, ast.Call) and isinstance(v.func, ast.Name)
                                                                    and v.func.id == "dict" and not v.args and not v.keywords):
                        good.add(t.attr)
                    else:
                        bad.add(t.attr)
    return good - bad


def module_generators(tree):
    return {s_.name for s_ in tree.body if isinstance(s_, FuncTypes) and any(
        isinstance(n, (ast.Yield, ast.YieldFrom)) for n in ast.walk(s_))}


def _zero_arg_gen_defs(fn):
    """def g(): for A in X: for B in Y: yield E    ...   f(g())      ->      f((E for A in X for B in Y))
    (the call is the sole argument of another call: created and consumed on the spot)"""
    for scope in [n for n in ast.walk(fn) if isinstance(n, FuncTypes)]:
        for blk in _all_blocks(scope):
            for st in list(blk):
                if not (isinstance(st, FuncTypes) and not st.decorator_list and not st.args.args and not st.args.vararg
                        and not st.args.kwarg and not st.args.kwonlyargs):
                    continue
                body = docstring_free(st.body)
                gens = []
                cur = body
                elt = None
                while len(cur) == 1 and isinstance(cur[0], ast.For) and not cur[0].orelse and len(gens) < 4:
                    gens.append((cur[0].target, cur[0].iter))
                    cur = cur[0].body
                if gens and len(cur) == 1 and isinstance(cur[0], ast.Expr) and isinstance(cur[0].value, ast.Yield) \
                        and cur[0].value.value is not None:
                    elt = cur[0].value.value
                if elt is None:
                    continue
                calls = [n for n in ast.walk(scope) if isinstance(n, ast.Call) and isinstance(n.func, ast.Name)
                         and n.func.id == st.name]
                loads = [n for n in ast.walk(scope) if isinstance(n, ast.Name) and n.id == st.name and isinstance(n.ctx, ast.Load)]
                same = [n for n in ast.walk(scope) if isinstance(n, FuncTypes) and n.name == st.name]
                after = blk[blk.index(st) + 1:]
                if not calls or len(calls) != len(loads) or len(same) != 1 or any(c.args or c.keywords for c in calls):
                    continue
                if not all(any(c is x for s_ in after for x in ast.walk(s_)) for c in calls):
                    continue
                # every call is the only argument of an enclosing call
                parents_ok = True
                for c in calls:
                    holder = [n for n in ast.walk(scope) if isinstance(n, ast.Call) and len(n.args) == 1 and n.args[0] is c
                              and not n.keywords]
                    if not holder:
                        parents_ok = False
                if not parents_ok:
                    continue
                ids = {id(c) for c in calls}
                comp_src = [(ast.unparse(t), ast.unparse(i)) for t, i in gens]
                elt_src = ast.unparse(elt)

                class _Rep(ast.NodeTransformer):
                    def visit_Call(self, node):
                        self.generic_visit(node)
                        if id(node) in ids:
                            return ast.GeneratorExp(
                                elt=ast.parse(elt_src, mode="eval").body,
                                generators=[ast.comprehension(target=ast.parse(t + " = 0").body[0].targets[0],
                                                              iter=ast.parse(i, mode="eval").body, ifs=[], is_async=0)
                                            for t, i in comp_src])
                        return node
                blk.remove(st)
                for i_, s_ in enumerate(scope.body):
                    scope.body[i_] = _Rep().visit(s_)
    return fn


_EAGER_BUILTINS = {"sum", "list", "tuple", "max", "min", "any", "all", "sorted", "set", "frozenset", "dict", "OrderedDict"}


def _param_gen_defs(fn):
    """def g(p, q): for T in S: yield E      ...   sum(g(a, b))     ->     sum((E' for T in S'))   (p, q := a, b)
    when every call of g is the only argument of a builtin that consumes it on the spot and the arguments are plain
    names / literals: the loop header is evaluated inside the consumer, before anything else can happen"""
    for scope in [n for n in ast.walk(fn) if isinstance(n, FuncTypes)]:
        for blk in _all_blocks(scope):
            for st in list(blk):
                if not (isinstance(st, FuncTypes) and not st.decorator_list and st.args.args and not st.args.vararg
                        and not st.args.kwarg and not st.args.defaults and not st.args.kwonlyargs):
                    continue
                body = docstring_free(st.body)
                if not (len(body) == 1 and isinstance(body[0], ast.For) and not body[0].orelse and len(body[0].body) == 1
                        and isinstance(body[0].body[0], ast.Expr) and isinstance(body[0].body[0].value, ast.Yield)
                        and body[0].body[0].value.value is not None):
                    continue
                loop = body[0]
                params = [a.arg for a in st.args.args]
                if isinstance(loop.iter, ast.Name) and loop.iter.id in params:
                    continue        # the iterable itself is a parameter: the other rewrite
                if any(isinstance(n, ast.Name) and isinstance(n.ctx, (ast.Store, ast.Del)) and n.id in params for n in ast.walk(loop)):
                    continue
                calls = [n for n in ast.walk(scope) if isinstance(n, ast.Call) and isinstance(n.func, ast.Name) and n.func.id == st.name]
                loads = [n for n in ast.walk(scope) if isinstance(n, ast.Name) and n.id == st.name and isinstance(n.ctx, ast.Load)]
                same = [n for n in ast.walk(scope) if isinstance(n, FuncTypes) and n.name == st.name]
                rebound = [n for n in ast.walk(scope) if isinstance(n, ast.Name) and n.id == st.name and isinstance(n.ctx, (ast.Store, ast.Del))]
                if not calls or len(calls) != len(loads) or len(same) != 1 or rebound:
                    continue
                after = blk[blk.index(st) + 1:]
                if not all(any(c is x for s_ in after for x in ast.walk(s_)) for c in calls):
                    continue
                parent = {}
                for n in ast.walk(scope):
                    for ch in ast.iter_child_nodes(n):
                        parent[id(ch)] = n
                ok = True
                for c in calls:
                    par = parent.get(id(c))
                    if not (len(c.args) == len(params) and not c.keywords
                            and all(isinstance(a_, (ast.Name, ast.Constant)) for a_ in c.args)
                            and isinstance(par, ast.Call) and isinstance(par.func, ast.Name) and par.func.id in _EAGER_BUILTINS
                            and len(par.args) == 1 and par.args[0] is c and not par.keywords):
                        ok = False
                if not ok:
                    continue
                ids = {id(c) for c in calls}
                elt_src, tgt_src, it_src = ast.unparse(loop.body[0].value.value), ast.unparse(loop.target), ast.unparse(loop.iter)

                class _Rep(ast.NodeTransformer):
                    def visit_Call(self, node):
                        self.generic_visit(node)
                        if id(node) in ids:
                            m = dict(zip(params, node.args))
                            sub = lambda src: _Subst(m).visit(ast.parse(src, mode="eval").body)
                            return ast.GeneratorExp(elt=sub(elt_src), generators=[ast.comprehension(
                                target=ast.parse(tgt_src + " = 0").body[0].targets[0], iter=sub(it_src), ifs=[], is_async=0)])
                        return node
                blk.remove(st)
                for i_, s_ in enumerate(scope.body):
                    scope.body[i_] = _Rep().visit(s_)
                ast.fix_missing_locations(scope)
                return _param_gen_defs(fn) or True
    return False


def _gen_defs_to_genexps(fn):
    """def g(p): for T in p: yield E   ...   g(iter(X))      ->      (E for T in X)
    (both call iter(X) on the spot and evaluate E lazily in the enclosing scope)"""
    for scope in [n for n in ast.walk(fn) if isinstance(n, FuncTypes)]:
        for blk in _all_blocks(scope):
            for st in list(blk):
                if not (isinstance(st, FuncTypes) and not st.decorator_list and len(st.args.args) == 1
                        and not st.args.vararg and not st.args.kwarg and not st.args.defaults):
                    continue
                body = docstring_free(st.body)
                if len(body) == 1 and isinstance(body[0], ast.For) and len(body[0].body) > 1:
                    try:
                        body[0].body = _norm_simple(list(body[0].body), {"root": st}) or body[0].body
                    except Exception:
                        pass
                if not (len(body) == 1 and isinstance(body[0], ast.For) and not body[0].orelse
                        and isinstance(body[0].iter, ast.Name) and body[0].iter.id == st.args.args[0].arg
                        and len(body[0].body) == 1 and isinstance(body[0].body[0], ast.Expr)
                        and isinstance(body[0].body[0].value, ast.Yield) and body[0].body[0].value.value is not None):
                    continue
                loop = body[0]
                p = st.args.args[0].arg
                if any(isinstance(n, ast.Name) and n.id == p for n in ast.walk(loop.body[0])):
                    continue
                calls = [n for n in ast.walk(scope) if isinstance(n, ast.Call) and isinstance(n.func, ast.Name)
                         and n.func.id == st.name]
                loads = [n for n in ast.walk(scope) if isinstance(n, ast.Name) and n.id == st.name and isinstance(n.ctx, ast.Load)]
                if not calls or len(calls) != len(loads):
                    continue
                def eager_ok(c):
                    if not (len(c.args) == 1 and not c.keywords and isinstance(c.args[0], ast.Call)
                            and isinstance(c.args[0].func, ast.Name)):
                        return False
                    a_ = c.args[0]
                    if a_.func.id == "iter" and len(a_.args) == 1:
                        return True
                    # a call of a generator function of the module: iter() of its result is the result itself
                    return a_.func.id in _CTX["generators"]
                if not all(eager_ok(c) for c in calls):
                    continue
                # other definitions of the same name in the scope (if/else arms) are handled one by one: the call sites
                # must be reached by exactly this definition - accepted when the definition is the only one of that name
                # in its block chain up to the call
                same = [n for n in ast.walk(scope) if isinstance(n, FuncTypes) and n.name == st.name]
                rebound = [n for n in ast.walk(scope) if isinstance(n, ast.Name) and n.id == st.name
                           and isinstance(n.ctx, (ast.Store, ast.Del))]
                after = blk[blk.index(st) + 1:]
                dominated = all(any(c is x for s_ in after for x in ast.walk(s_)) for c in calls)
                if len(same) != 1 or rebound or not dominated:
                    # several arms define the name: each definition becomes ``name = lambda src: (E for T in src)``
                    # (a generator function fed an iterator and a generator expression over it behave alike)
                    gen = ast.GeneratorExp(elt=ast.parse(ast.unparse(loop.body[0].value.value), mode="eval").body,
                                           generators=[ast.comprehension(
                                               target=ast.parse(ast.unparse(loop.target) + " = 0").body[0].targets[0],
                                               iter=ast.Name(id=p, ctx=ast.Load()), ifs=[], is_async=0)])
                    lam = ast.Lambda(args=ast.arguments(posonlyargs=[], args=[ast.arg(arg=p)], vararg=None, kwonlyargs=[],
                                                        kw_defaults=[], kwarg=None, defaults=[]), body=gen)
                    blk[blk.index(st)] = ast.Assign(targets=[ast.Name(id=st.name, ctx=ast.Store())], value=lam,
                                                    lineno=st.lineno, col_offset=0)
                    continue
                elt_src = ast.unparse(loop.body[0].value.value)
                tgt_src = ast.unparse(loop.target)
                ids = {id(c) for c in calls}

                class _Rep(ast.NodeTransformer):
                    def visit_Call(self, node):
                        self.generic_visit(node)
                        if id(node) in ids:
                            src_ = node.args[0].args[0] if node.args[0].func.id == "iter" else node.args[0]
                            return ast.GeneratorExp(
                                elt=ast.parse(elt_src, mode="eval").body,
                                generators=[ast.comprehension(target=ast.parse(tgt_src + " = 0").body[0].targets[0],
                                                              iter=src_, ifs=[], is_async=0)])
                        return node
                blk.remove(st)
                for i_, s_ in enumerate(scope.body):
                    scope.body[i_] = _Rep().visit(s_)
    return fn


def _all_blocks(scope):
    out = [scope.body]
    stack = list(scope.body)
    while stack:
        st = stack.pop()
        if isinstance(st, FuncTypes + (ast.ClassDef,)):
            continue
        for fld in ("body", "orelse", "finalbody"):
            b = getattr(st, fld, None)
            if isinstance(b, list) and b and isinstance(b[0], ast.stmt):
                out.append(b)
                stack.extend(b)
        for h in getattr(st, "handlers", []) or []:
            out.append(h.body)
            stack.extend(h.body)
    return out


def canonical(fn, helpers, methods=None, hier=None):
    """Canonical dump of a function modulo the rewrites above."""
    return ast.dump(canonical_ast(fn, helpers, methods, hier), annotate_fields=False, include_attributes=False)


def _clean(node):
    """a copy without the back-links (``_parent``) that Module adds: deep copies must stay local"""
    return ast.parse(ast.unparse(node)).body[0]


def _list_locals(f):
    """locals that can only hold a list (every binding a display / comprehension / list(..) / sorted(..), otherwise only
    ``+=``): their truth value is "not empty" """
    out = set()
    kinds_ = {}
    for n_ in ast.walk(f):
        if isinstance(n_, ast.Assign):
            for t_ in n_.targets:
                if isinstance(t_, ast.Name):
                    v_ = n_.value
                    is_list = isinstance(v_, (ast.List, ast.ListComp)) or (
                        isinstance(v_, ast.Call) and isinstance(v_.func, ast.Name) and v_.func.id in ("list", "sorted")) or (
                        isinstance(v_, ast.BinOp) and isinstance(v_.op, ast.Mult) and isinstance(v_.left, ast.List))
                    kinds_.setdefault(t_.id, []).append(is_list)
                else:
                    for x_ in ast.walk(t_):
                        if isinstance(x_, ast.Name) and isinstance(x_.ctx, ast.Store):
                            kinds_.setdefault(x_.id, []).append(False)
        elif isinstance(n_, ast.AugAssign) and isinstance(n_.target, ast.Name):
            kinds_.setdefault(n_.target.id, []).append(isinstance(n_.op, ast.Add))
        elif isinstance(n_, (ast.For, ast.comprehension, ast.withitem, ast.NamedExpr, ast.ExceptHandler)):
            tg_ = getattr(n_, "target", None) or getattr(n_, "optional_vars", None)
            if isinstance(n_, ast.ExceptHandler) and n_.name:
                kinds_.setdefault(n_.name, []).append(False)
            if tg_ is not None:
                for x_ in ast.walk(tg_):
                    if isinstance(x_, ast.Name):
                        kinds_.setdefault(x_.id, []).append(False)
        elif isinstance(n_, (ast.Global, ast.Nonlocal)):
            for nm_ in n_.names:
                kinds_.setdefault(nm_, []).append(False)
        elif isinstance(n_, FuncTypes + (ast.ClassDef,)) and n_ is not f:
            kinds_.setdefault(n_.name, []).append(False)
    all_params_ = {a_.arg for g_ in ast.walk(f) if isinstance(g_, FuncTypes + (ast.Lambda,)) for a_ in ast.walk(g_.args)
                   if isinstance(a_, ast.arg)}
    for nm_, ks_ in kinds_.items():
        if ks_ and all(ks_) and nm_ not in all_params_:
            out.add(nm_)
    return out


class _TruthOnly(ast.NodeTransformer):
    """test-position bare names of list / tuple locals written as ``len(x) != 0`` (so that arms are ordered the same way
    whichever spelling was used, before names are numbered)"""
    def __init__(self, names):
        self.names = names

    def _t(self, e):
        if isinstance(e, ast.Name) and e.id in self.names:
            return ast.Compare(left=ast.Call(func=ast.Name(id="len", ctx=ast.Load()), args=[e], keywords=[]),
                               ops=[ast.NotEq()], comparators=[ast.Constant(value=0)])
        if isinstance(e, ast.BoolOp):
            e.values = [self._t(v) for v in e.values]
        elif isinstance(e, ast.UnaryOp) and isinstance(e.op, ast.Not):
            e.operand = self._t(e.operand)
        return e

    def visit_If(self, node):
        node.test = self._t(node.test)
        self.generic_visit(node)
        return node

    def visit_While(self, node):
        node.test = self._t(node.test)
        self.generic_visit(node)
        return node

    def visit_IfExp(self, node):
        node.test = self._t(node.test)
        self.generic_visit(node)
        return node

    def visit_BoolOp(self, node):
        # only where the whole expression is a test: ``x = a or b`` hands an operand on
        self.generic_visit(node)
        return node

    def visit_UnaryOp(self, node):
        # ``not E`` is a truth value wherever it stands
        if isinstance(node.op, ast.Not):
            node.operand = self._t(node.operand)
        self.generic_visit(node)
        return node


def canonical_ast(fn, helpers, methods=None, hier=None, segment=False):
    _CTX["list_classes"] = {c for c, bases in (hier or {}).items() if "list" in bases}
    f = _clean(fn)
    used, frontier = set(), [f]
    allh = dict(helpers)
    allm = dict(methods or {})
    while frontier:
        node = frontier.pop()
        for n in ast.walk(node):
            nm = n.id if isinstance(n, ast.Name) else n.attr if isinstance(n, ast.Attribute) else None
            if nm and nm not in used and (nm in allh or nm in allm):
                used.add(nm)
                frontier.append(allh.get(nm) or allm.get(nm))
    helpers = {k: _clean(v) for k, v in allh.items() if k in used}
    methods = {k: _clean(v) for k, v in allm.items() if k in used}
    from .inline import Inliner, run_inliner
    _local_lambdas_to_defs(f)
    for _ in range(3):
        inl = Inliner(helpers, methods or {})
        run_inliner(inl, f, frozenset())
        if not inl.done:
            break

    class _Beta(ast.NodeTransformer):
        def visit_GeneratorExp(self, node):
            self.generic_visit(node)
            it0 = node.generators[0].iter
            if isinstance(it0, ast.Call) and isinstance(it0.func, ast.Name) and it0.func.id == "iter" and len(it0.args) == 1 \
                    and not it0.keywords:
                node.generators[0].iter = it0.args[0]      # a generator expression calls iter() on it anyway
            return node

        def visit_Call(self, node):
            self.generic_visit(node)
            if isinstance(node.func, ast.Name) and node.func.id in ("map", "xmap") and len(node.args) == 2 and not node.keywords \
                    and isinstance(node.args[0], (ast.Name, ast.Attribute, ast.Lambda)) \
                    and not isinstance(node.args[1], ast.Starred):
                # map(f, X) and (f(c) for c in X) are the same lazy iteration (both call iter(X) on the spot)
                _Beta.k = getattr(_Beta, "k", 0) + 1
                var = "m__%d" % _Beta.k
                elt = ast.Call(func=node.args[0], args=[ast.Name(id=var, ctx=ast.Load())], keywords=[])
                return self.visit(ast.GeneratorExp(elt=elt, generators=[ast.comprehension(
                    target=ast.Name(id=var, ctx=ast.Store()), iter=node.args[1], ifs=[], is_async=0)]))
            if isinstance(node.func, ast.IfExp) and isinstance(node.func.body, ast.Lambda) \
                    and isinstance(node.func.orelse, ast.Lambda):
                # (A if c else B)(args): the test is evaluated first either way
                mk = lambda fnode: self.visit(ast.Call(func=fnode, args=[ast.parse(ast.unparse(a_), mode="eval").body
                                                                        for a_ in node.args], keywords=[]))
                if not node.keywords:
                    return ast.IfExp(test=node.func.test, body=mk(node.func.body), orelse=mk(node.func.orelse))
            if isinstance(node.func, ast.Lambda):
                from .inline import beta_reduce
                red = beta_reduce(node)
                if red is not node:
                    return self.visit(red)
            return node
    f = _Beta().visit(f)
    _gen_defs_to_genexps(f)
    _param_gen_defs(f)
    _zero_arg_gen_defs(f)
    ast.fix_missing_locations(f)
    f.body = docstring_free(f.body)
    _numeric_steps(f)
    _private_list_resets(f)
    _inline_super_aliases(f)
    _tuple_assign_prepass(f)
    ll_ = _list_locals(f)
    if ll_:
        f = _TruthOnly(ll_).visit(f)
        ast.fix_missing_locations(f)
    if not segment:
        for _ in range(3):
            if not _inline_read_aliases(f, strict=True):
                break
    _ssa_toplevel(f)
    from .webs import split_webs
    split_webs(f)
    for _ in range(4):
        if not _propagate_pure(f):
            break
    bound = frozenset(_bound(f))
    params = frozenset(_scope_params(f))
    for _round in range(8):
        before = ast.dump(f)
        bound = frozenset(_bound(f))
        f.body = _norm_region(f.body, None if segment else "func", {"bound": bound, "root": f, "defined": params})
        split_webs(f)
        from .inline import cleanup_copies
        cleanup_copies(f)
        for g_ in ast.walk(f):
            if isinstance(g_, FuncTypes) and g_ is not f:
                cleanup_copies(g_)
        for _ in range(4):
            if not _propagate_pure(f):
                break
        f = _Beta().visit(f)
        ast.fix_missing_locations(f)
        _local_lambdas_to_defs(f)
        # helpers / closures that only now have a single-expression body
        inl = Inliner(helpers, methods or {})
        run_inliner(inl, f, frozenset())
        if inl.done:
            f = _Beta().visit(f)
            ast.fix_missing_locations(f)
        if ast.dump(f) == before:
            break
    bound = frozenset(_bound(f))
    f = number(f, bound, locals_too=not segment)
    tuple_locals = set([f.args.vararg.arg] if f.args.vararg else ())
    binds = {}
    for n_ in ast.walk(f):
        if isinstance(n_, ast.Name) and isinstance(n_.ctx, (ast.Store, ast.Del)):
            binds.setdefault(n_.id, []).append(None)
    for n_ in ast.walk(f):
        if isinstance(n_, ast.Assign) and len(n_.targets) == 1 and isinstance(n_.targets[0], ast.Name):
            v_ = n_.value
            if isinstance(v_, ast.Tuple) or (isinstance(v_, ast.Call) and isinstance(v_.func, ast.Name) and v_.func.id == "tuple"):
                binds[n_.targets[0].id].append("tuple")
    for nm_, lst_ in binds.items():
        if lst_.count("tuple") * 2 == len(lst_) and lst_.count("tuple") >= 1 and nm_ not in _scope_params(f):
            tuple_locals.add(nm_)
    tuple_locals |= _list_locals(f)
    f = _Expr(tuple_locals, f).visit(f)
    ast.fix_missing_locations(f)
    f.body = _norm_region(f.body, None if segment else "func", {"root": f, "defined": params, "final": True,
                                           "bound": frozenset(_bound(f)) | params})
    _CTX["dt_root"] = f
    try:
        f.body = _dt_pass(f.body, hier or {})
    finally:
        _CTX["dt_root"] = None
    return f


def same_function(fa, fb):
    """True when the two function definitions are equal modulo the rewrites of this module"""
    try:
        return canonical(fa, {}, {}, {}) == canonical(fb, {}, {}, {})
    except (RecursionError, Inconclusive, SyntaxError):
        return False


# --------------------------------------------------------------------------- segment adoption
def _seg_function(stmts, live_out):
    body = [ast.parse(ast.unparse(st)).body[0] for st in stmts]
    if live_out:
        # the names under which values leave the segment are part of its meaning: kept as keywords
        body.append(ast.Expr(value=ast.Call(func=ast.Name(id="__liveout__", ctx=ast.Load()), args=[],
                                            keywords=[ast.keyword(arg=n, value=ast.Name(id=n, ctx=ast.Load()))
                                                      for n in sorted(live_out)])))
    fn = ast.FunctionDef(name="_seg", args=ast.arguments(posonlyargs=[], args=[], vararg=None, kwonlyargs=[], kw_defaults=[],
                                                         kwarg=None, defaults=[]), body=body or [ast.Pass()],
                         decorator_list=[], returns=None, type_comment=None, lineno=1, col_offset=0)
    try:
        fn.type_params = []
    except Exception:
        pass
    return ast.fix_missing_locations(fn)


def _stored(stmts):
    out = set()
    for st in stmts:
        for n in ast.walk(st):
            if isinstance(n, ast.Name) and isinstance(n.ctx, (ast.Store, ast.Del)):
                out.add(n.id)
            elif isinstance(n, FuncTypes + (ast.ClassDef,)):
                out.add(n.name)
    return out


def _loaded_outside(fn, stmts):
    inside = set()
    for st in stmts:
        for n in ast.walk(st):
            inside.add(id(n))
    out = set()
    for n in ast.walk(fn):
        if isinstance(n, ast.Name) and isinstance(n.ctx, ast.Load) and id(n) not in inside:
            out.add(n.id)
    return out


class SegmentAdopter(object):
    """Where a function as a whole is not provably the confirmed one, its statements (and runs of statements) that
    are, taken on their own, provably equivalent to the confirmed statements at the same place are replaced by them:
    a rule about one part of a function is then not disturbed by a rewording of another part."""
    def __init__(self, helpers_cur, helpers_ref, meth_cur, meth_ref, hier_cur, hier_ref):
        self.hc, self.hr, self.mc, self.mr, self.hic, self.hir = helpers_cur, helpers_ref, meth_cur, meth_ref, hier_cur, hier_ref
        self.adopted = 0
        self.cache = {}
        self.gens_c, self.gens_r = set(), set()
        self.dattr_c, self.dattr_r = set(), set()

    def key(self, fn, stmts, cur):
        live = _stored(stmts) & _loaded_outside(fn, stmts)
        _CTX["generators"] = self.gens_c if cur else self.gens_r
        _CTX["dict_attrs"] = self.dattr_c if cur else self.dattr_r
        try:
            f = _seg_function(stmts, live)
            return ast.dump(canonical_ast(f, self.hc if cur else self.hr, self.mc if cur else self.mr,
                                          self.hic if cur else self.hir, segment=True), annotate_fields=False)
        except (RecursionError, Inconclusive, SyntaxError, _Stop):
            return None
        except Exception:
            return None

    def blocks(self, cfn, rfn, cblk, rblk):
        import difflib
        cs, rs = list(cblk), list(rblk)
        doc = lambda b: 1 if b and isinstance(b[0], ast.Expr) and isinstance(b[0].value, ast.Constant) and isinstance(b[0].value.value, str) else 0
        c0, r0 = doc(cs), doc(rs)
        kc = [ast.dump(st) for st in cs[c0:]]
        kr = [ast.dump(st) for st in rs[r0:]]
        if kc == kr:
            return cblk
        ck = [self.key(cfn, [st], True) or ("?c%d" % i) for i, st in enumerate(cs[c0:])]
        rk = [self.key(rfn, [st], False) or ("?r%d" % i) for i, st in enumerate(rs[r0:])]
        sm = difflib.SequenceMatcher(a=ck, b=rk, autojunk=False)
        out = list(cs[:c0])
        for tag, i1, i2, j1, j2 in sm.get_opcodes():
            cseg, rseg = cs[c0 + i1:c0 + i2], rs[r0 + j1:r0 + j2]
            if tag == "equal":
                for a_, b_ in zip(cseg, rseg):
                    if ast.dump(a_) != ast.dump(b_):
                        self.adopted += 1
                        out.append(self.copy(b_, a_))
                    else:
                        out.append(a_)
            elif tag == "replace":
                ka, kb = self.key(cfn, cseg, True), self.key(rfn, rseg, False)
                if ka is not None and ka == kb:
                    self.adopted += 1
                    out.extend(self.copy(b_, cseg[0]) for b_ in rseg)
                    continue
                # a few statements at the end (or start) of the gap may match as a run even if the whole gap does not
                tail_c = tail_r = head_c = head_r = 0
                if len(cseg) + len(rseg) > 2:
                    done_ = False
                    for k_ in range(1, min(3, len(cseg)) + 1):
                        for m_ in range(1, min(3, len(rseg)) + 1):
                            if (k_, m_) == (len(cseg), len(rseg)):
                                continue
                            x_, y_ = self.key(cfn, cseg[-k_:], True), self.key(rfn, rseg[-m_:], False)
                            if x_ is not None and x_ == y_:
                                tail_c, tail_r, done_ = k_, m_, True
                                break
                        if done_:
                            break
                if tail_c:
                    mid_c, mid_r = cseg[:-tail_c], rseg[:-tail_r]
                    sub = SegmentAdopter.__new__(SegmentAdopter)
                    sub.__dict__ = self.__dict__
                    if mid_c and mid_r:
                        out.extend(self.blocks(cfn, rfn, mid_c, mid_r))
                    else:
                        out.extend(mid_c)
                    self.adopted += 1
                    out.extend(self.copy(b_, cseg[-tail_c]) for b_ in rseg[-tail_r:])
                    continue
                if len(cseg) == 1 and len(rseg) == 1 and type(cseg[0]) is type(rseg[0]):
                    out.append(self.inside(cfn, rfn, cseg[0], rseg[0]))
                else:
                    # compound statements with the same header are paired (in order) and looked into
                    used = 0
                    for a_ in cseg:
                        hit = None
                        if isinstance(a_, (ast.If, ast.For, ast.While, ast.With, ast.Try) + FuncTypes):
                            for j_ in range(used, len(rseg)):
                                b_ = rseg[j_]
                                if type(a_) is type(b_) and self.header(a_) == self.header(b_):
                                    hit = j_
                                    break
                        if hit is not None:
                            out.append(self.inside(cfn, rfn, a_, rseg[hit]))
                            used = hit + 1
                        else:
                            out.append(a_)
            elif tag == "delete":
                out.extend(cseg)
            # 'insert' (reference statements missing here): nothing to add
        return out

    @staticmethod
    def header(st):
        if isinstance(st, FuncTypes):
            return ("def", st.name)
        if isinstance(st, (ast.If, ast.While)):
            return ("test", ast.dump(st.test))
        if isinstance(st, ast.For):
            return ("for", ast.dump(st.target), ast.dump(st.iter))
        if isinstance(st, ast.With):
            return ("with", tuple(ast.dump(i) for i in st.items))
        if isinstance(st, ast.Try):
            return ("try", len(st.handlers))
        return None

    def inside(self, cfn, rfn, c, r):
        if isinstance(c, FuncTypes) and c.name == r.name:
            c.body = self.blocks(c, r, c.body, r.body)
            return c
        if isinstance(c, ast.If) and ast.dump(c.test) == ast.dump(r.test):
            c.body = self.blocks(cfn, rfn, c.body, r.body)
            c.orelse = self.blocks(cfn, rfn, c.orelse, r.orelse) if c.orelse and r.orelse else c.orelse
            return c
        if isinstance(c, (ast.For, ast.While)) and ast.dump(getattr(c, "iter", getattr(c, "test", None))) == \
                ast.dump(getattr(r, "iter", getattr(r, "test", None))) and (not isinstance(c, ast.For) or
                                                                            ast.dump(c.target) == ast.dump(r.target)):
            c.body = self.blocks(cfn, rfn, c.body, r.body)
            return c
        if isinstance(c, ast.With) and [ast.dump(i) for i in c.items] == [ast.dump(i) for i in r.items]:
            c.body = self.blocks(cfn, rfn, c.body, r.body)
            return c
        if isinstance(c, ast.Try) and len(c.handlers) == len(r.handlers):
            c.body = self.blocks(cfn, rfn, c.body, r.body)
            return c
        return c

    def copy(self, ref_stmt, at):
        new = copy.deepcopy(ref_stmt)
        delta = getattr(at, "lineno", 1) - getattr(ref_stmt, "lineno", 1)
        for n in ast.walk(new):
            if hasattr(n, "lineno"):
                n.lineno = n.lineno + delta
            if getattr(n, "end_lineno", None) is not None:
                n.end_lineno = n.end_lineno + delta
        return new


def adopt_segments(tree, ref_tree, hier_cur=None, hier_ref=None, skip=()):
    """statement-level adoption inside the units that differ from the reference; returns {unit key: count}"""
    helpers_cur, helpers_ref = helper_table(tree), helper_table(ref_tree)
    meth_cur, meth_ref = method_tables(tree), method_tables(ref_tree)
    ref = {k: n for k, n, _, _ in units(ref_tree)}
    done = {}
    for key, node, container, idx in units(tree):
        r = ref.get(key)
        if r is None or key in skip or not isinstance(node, FuncTypes) or not isinstance(r, FuncTypes):
            continue
        # nodes of an analysed tree carry back-links: work on clean statement copies is done inside key();
        # the comparison of raw dumps needs link-free dumps, which ast.dump gives (it ignores unknown attributes)
        if ast.dump(node) == ast.dump(r):
            continue
        cls = key.split(".")[0] if "." in key else None

        def mt(tables, hier):
            out = {}
            for b in (hier or {}).get(cls, ()):
                out.update(tables.get(b, {}))
            out.update(tables.get(cls, {}))
            return out
        ad = SegmentAdopter(helpers_cur, helpers_ref, mt(meth_cur, hier_cur), mt(meth_ref, hier_ref), hier_cur, hier_ref)
        ad.gens_c, ad.gens_r = module_generators(tree), module_generators(ref_tree)
        ad.dattr_c, ad.dattr_r = plain_dict_attrs(tree), plain_dict_attrs(ref_tree)
        node.body = ad.blocks(node, r, node.body, r.body)
        if ad.adopted:
            done[key] = ad.adopted
    return done


def _local_lambdas_to_defs(f):
    """``name = lambda args: E`` (name bound once in the function and only ever called) is the local function
    ``def name(args): return E`` - which the in-liner knows how to treat"""
    stores, loads, calls = {}, {}, {}
    for n in ast.walk(f):
        if isinstance(n, ast.Name):
            if isinstance(n.ctx, ast.Load):
                loads[n.id] = loads.get(n.id, 0) + 1
            else:
                stores[n.id] = stores.get(n.id, 0) + 1
        elif isinstance(n, ast.Call) and isinstance(n.func, ast.Name):
            calls[n.func.id] = calls.get(n.func.id, 0) + 1
        elif isinstance(n, (ast.arg,)):
            stores[n.arg] = stores.get(n.arg, 0) + 2
        elif isinstance(n, FuncTypes) and n is not f:
            stores[n.name] = stores.get(n.name, 0) + 2
    changed = False
    # the other way round for a name that is bound several times: ``def name(a): return E`` (no decorator, no default)
    # re-binds the variable like ``name = lambda a: E`` does, and is treated like the assignment it is
    plain_stores = {}
    for n in ast.walk(f):
        if isinstance(n, ast.Name) and isinstance(n.ctx, ast.Store):
            plain_stores[n.id] = plain_stores.get(n.id, 0) + 1
    for blk in [b for n in ast.walk(f) for b in (getattr(n, "body", None), getattr(n, "orelse", None), getattr(n, "finalbody", None))
                if isinstance(b, list) and b and isinstance(b[0], ast.stmt)]:
        for i, st in enumerate(blk):
            if isinstance(st, ast.FunctionDef) and st is not f and not st.decorator_list and plain_stores.get(st.name, 0) >= 1:
                b_ = docstring_free(st.body)
                a = st.args
                if len(b_) == 1 and isinstance(b_[0], ast.Return) and b_[0].value is not None and not a.defaults \
                        and not a.kw_defaults and not a.vararg and not a.kwarg and not a.kwonlyargs \
                        and not any(isinstance(x, (ast.Yield, ast.YieldFrom)) for x in ast.walk(st)):
                    blk[i] = ast.Assign(targets=[ast.Name(id=st.name, ctx=ast.Store())],
                                        value=ast.Lambda(args=a, body=b_[0].value), lineno=st.lineno, col_offset=0)
                    ast.fix_missing_locations(blk[i])
                    changed = True
    # ``def g(a): return E`` bound once and mentioned once, as a value in a later simple statement of the same block
    # (``xmap(g, ..)``): the function is created where it is used - closures see variables, not values, so the place of
    # creation does not matter
    for blk in [b for n in ast.walk(f) for b in (getattr(n, "body", None), getattr(n, "orelse", None), getattr(n, "finalbody", None))
                if isinstance(b, list) and b and isinstance(b[0], ast.stmt)]:
        i = 0
        while i < len(blk):
            st = blk[i]
            i += 1
            if not (isinstance(st, ast.FunctionDef) and st is not f and not st.decorator_list):
                continue
            a = st.args
            b_ = docstring_free(st.body)
            if not (len(b_) == 1 and isinstance(b_[0], ast.Return) and b_[0].value is not None and not a.defaults
                    and not a.kw_defaults and not a.vararg and not a.kwarg and not a.kwonlyargs
                    and not any(isinstance(x, (ast.Yield, ast.YieldFrom)) for x in ast.walk(st))):
                continue
            if plain_stores.get(st.name, 0) or loads.get(st.name, 0) != 1 or calls.get(st.name, 0):
                continue
            if sum(1 for n in ast.walk(f) if isinstance(n, FuncTypes) and n.name == st.name) != 1:
                continue
            site = None
            for s2 in blk[i:]:
                hit = [n for n in ast.walk(s2) if isinstance(n, ast.Name) and n.id == st.name and isinstance(n.ctx, ast.Load)]
                if hit:
                    site = (s2, hit[0])
                    break
            if site is None or isinstance(site[0], (ast.For, ast.While, ast.If, ast.Try, ast.With) + FuncTypes):
                continue
            # not inside a nested scope of that statement (a comprehension could re-bind a free name of E)
            nested = any(any(x is site[1] for x in ast.walk(n)) for n in ast.walk(site[0])
                         if isinstance(n, (ast.Lambda, ast.GeneratorExp, ast.ListComp, ast.SetComp, ast.DictComp)))
            if nested:
                continue
            lam = ast.Lambda(args=a, body=b_[0].value)
            for n in ast.walk(site[0]):
                for fld, val in ast.iter_fields(n):
                    if val is site[1]:
                        setattr(n, fld, lam)
                    elif isinstance(val, list):
                        for k_, x_ in enumerate(val):
                            if x_ is site[1]:
                                val[k_] = lam
            blk.remove(st)
            i -= 1
            ast.fix_missing_locations(site[0])
            changed = True
    for blk in [b for n in ast.walk(f) for b in (getattr(n, "body", None), getattr(n, "orelse", None), getattr(n, "finalbody", None))
                if isinstance(b, list) and b and isinstance(b[0], ast.stmt)]:
        for i, st in enumerate(blk):
            if isinstance(st, ast.Assign) and len(st.targets) == 1 and isinstance(st.targets[0], ast.Name) \
                    and isinstance(st.value, ast.Lambda):
                nm = st.targets[0].id
                a = st.value.args
                if stores.get(nm) == 1 and loads.get(nm, 0) >= 1 and loads.get(nm) == calls.get(nm) \
                        and not a.defaults and not a.kw_defaults and not a.vararg and not a.kwarg:
                    d = lambda_to_def(st)
                    if d is not None:
                        blk[i] = d
                        changed = True
    return changed


def lambda_to_def(assign):
    """class-level ``name = D1(D2(lambda args: E))`` -> FunctionDef name with decorators [D1, D2]; else None."""
    if not (isinstance(assign, ast.Assign) and len(assign.targets) == 1 and isinstance(assign.targets[0], ast.Name)):
        return None
    decos = []
    v = assign.value
    while isinstance(v, ast.Call) and len(v.args) == 1 and not v.keywords:
        decos.append(v.func)
        v = v.args[0]
    if not isinstance(v, ast.Lambda):
        return None
    fn = ast.FunctionDef(name=assign.targets[0].id, args=v.args, body=[ast.Return(value=v.body)], decorator_list=decos,
                         returns=None, type_comment=None, lineno=assign.lineno, col_offset=assign.col_offset)
    try:
        fn.type_params = []
    except Exception:
        pass
    return ast.fix_missing_locations(fn)


def units(tree):
    """[(key, node, container list, index)] for top-level functions, methods and class-level lambda assignments."""
    out = []
    counts = {}

    def add(prefix, name, node, container, idx):
        q = prefix + name
        k = counts.get(q, 0)
        counts[q] = k + 1
        out.append(("%s#%d" % (q, k), node, container, idx))

    def walk(body, prefix, in_class):
        for i, st in enumerate(body):
            if isinstance(st, FuncTypes):
                add(prefix, st.name, st, body, i)
            elif isinstance(st, ast.ClassDef):
                walk(st.body, prefix + st.name + ".", True)
            elif in_class and lambda_to_def(st) is not None:
                add(prefix, st.targets[0].id, st, body, i)
            elif isinstance(st, (ast.If, ast.Try, ast.For, ast.While, ast.With)):
                for fld in ("body", "orelse", "finalbody"):
                    walk(getattr(st, fld, []) or [], prefix, in_class)
                for h in getattr(st, "handlers", []) or []:
                    walk(h.body, prefix, in_class)
    walk(tree.body, "", False)
    return out


def as_function(node):
    return node if isinstance(node, FuncTypes) else lambda_to_def(node)


def adopt_reference(tree, ref_tree, hier_cur=None, hier_ref=None):
    """Replace every unit of ``tree`` that is provably equivalent (but not identical) to its namesake in the reference
    by the reference unit.  Returns the list of adopted unit keys."""
    helpers_cur = helper_table(tree)
    helpers_ref = helper_table(ref_tree)
    meth_cur, meth_ref = method_tables(tree), method_tables(ref_tree)
    gens_cur, gens_ref = module_generators(tree), module_generators(ref_tree)
    dattr_cur, dattr_ref = plain_dict_attrs(tree), plain_dict_attrs(ref_tree)
    ref = {k: n for k, n, _, _ in units(ref_tree)}
    adopted = []
    for key, node, container, idx in units(tree):
        r = ref.get(key)
        if r is None:
            continue
        if ast.dump(node) == ast.dump(r):
            continue
        fc, fr = as_function(node), as_function(r)
        if fc is None or fr is None:
            continue
        try:
            cls = key.split(".")[0] if "." in key else None

            def mt(tables, hier):
                out = {}
                for b in (hier or {}).get(cls, ()):
                    out.update(tables.get(b, {}))
                out.update(tables.get(cls, {}))
                return out
            _CTX["generators"] = gens_cur
            _CTX["dict_attrs"] = dattr_cur
            ccur = canonical(fc, helpers_cur, mt(meth_cur, hier_cur), hier_cur)
            _CTX["generators"] = gens_ref
            _CTX["dict_attrs"] = dattr_ref
            cref = canonical(fr, helpers_ref, mt(meth_ref, hier_ref), hier_ref)
            if ccur == cref:
                new = copy.deepcopy(r)
                # keep the position of the current definition for reports
                delta = getattr(node, "lineno", 1) - getattr(r, "lineno", 1)
                for n in ast.walk(new):
                    if hasattr(n, "lineno"):
                        n.lineno = n.lineno + delta
                    if hasattr(n, "end_lineno") and n.end_lineno is not None:
                        n.end_lineno = n.end_lineno + delta
                container[idx] = new
                adopted.append(key)
        except (RecursionError, Inconclusive):
            continue
    if adopted:
        # helpers that only the adopted units used are, in the adopted view, inlined: they are no longer part of it
        for _ in range(3):
            removed = False
            for key, node, container, idx in units(tree):
                if key in ref or not isinstance(node, FuncTypes) or not node.name.startswith("_") or node.name.startswith("__"):
                    continue
                uses = 0
                for n in ast.walk(tree):
                    if isinstance(n, ast.Name) and n.id == node.name and isinstance(n.ctx, ast.Load):
                        uses += 1
                    elif isinstance(n, ast.Attribute) and n.attr == node.name:
                        uses += 1
                if uses == 0 and container[idx] is node:
                    del container[idx]
                    adopted.append("absorbed:" + key)
                    removed = True
                    break
            if not removed:
                break
    return adopted
