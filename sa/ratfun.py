"""E5  rational normal forms.

Exact arithmetic on rational functions over opaque symbols: a polynomial is
``{monomial: Fraction}`` with Laurent monomials (sorted ``(symbol, int)``
pairs); a rational function is a pair compared by cross-multiplication.
This is a normaliser (as in global value numbering with an algebraic normal
form) - there are no path constraints and nothing is handed to a solver.
"""
import ast
from fractions import Fraction


class Inconclusive(Exception):
    """expression outside the interpretable fragment"""


def _mono_mul(m1, m2):
    d = dict(m1)
    for s, e in m2:
        d[s] = d.get(s, 0) + e
    return tuple(sorted((s, e) for s, e in d.items() if e))


def _padd(a, b):
    r = dict(a)
    for m, c in b.items():
        v = r.get(m, 0) + c
        if v:
            r[m] = v
        else:
            r.pop(m, None)
    return r


def _pmul(a, b):
    r = {}
    for m1, c1 in a.items():
        for m2, c2 in b.items():
            m = _mono_mul(m1, m2)
            v = r.get(m, 0) + c1 * c2
            if v:
                r[m] = v
            else:
                r.pop(m, None)
    return r


def _pscale(a, c):
    return {m: v * c for m, v in a.items()} if c else {}


class RF(object):
    __slots__ = ("n", "d")

    def __init__(self, n, d=None):
        self.n = n
        self.d = d if d is not None else {(): Fraction(1)}
        if not self.d:
            raise ZeroDivisionError("rational function with zero denominator")

    # constructors
    @staticmethod
    def const(c):
        c = Fraction(c)
        return RF({(): c} if c else {})

    @staticmethod
    def sym(name):
        return RF({((name, 1),): Fraction(1)})

    # arithmetic
    def __add__(a, b):
        b = lift(b)
        if a.d == b.d:
            return RF(_padd(a.n, b.n), a.d)
        return RF(_padd(_pmul(a.n, b.d), _pmul(b.n, a.d)), _pmul(a.d, b.d))
    __radd__ = __add__

    def __neg__(a):
        return RF(_pscale(a.n, -1), a.d)

    def __sub__(a, b):
        return a + (-lift(b))

    def __rsub__(a, b):
        return lift(b) - a

    def __mul__(a, b):
        b = lift(b)
        return RF(_pmul(a.n, b.n), _pmul(a.d, b.d))
    __rmul__ = __mul__

    def __truediv__(a, b):
        b = lift(b)
        if not b.n:
            raise ZeroDivisionError("division by the zero rational function")
        return RF(_pmul(a.n, b.d), _pmul(a.d, b.n))

    def __rtruediv__(a, b):
        return lift(b) / a

    def __pow__(a, k):
        if isinstance(k, RF):
            k = k.as_int()
        if not isinstance(k, int):
            raise Inconclusive("non-integer power")
        if k < 0:
            return RF.const(1) / (a ** -k)
        # single-monomial fast path (z ** -k etc.)
        r = RF.const(1)
        base = a
        while k:
            if k & 1:
                r = r * base
            base = base * base
            k >>= 1
        return r

    def __eq__(a, b):
        b = lift(b)
        return _pmul(a.n, b.d) == _pmul(b.n, a.d)

    def __ne__(a, b):
        return not a == b

    __hash__ = None

    # inspection
    def is_zero(self):
        return not self.n

    def is_const(self):
        s = self.simplified()
        return set(s.n) <= {()} and set(s.d) == {()}

    def as_fraction(self):
        s = self.simplified()
        if not (set(s.n) <= {()} and set(s.d) == {()}):
            raise Inconclusive("not a constant: %s" % self)
        return s.n.get((), Fraction(0)) / s.d[()]

    def as_int(self):
        f = self.as_fraction()
        if f.denominator != 1:
            raise Inconclusive("not an integer: %s" % f)
        return int(f)

    def symbols(self):
        out = set()
        for p in (self.n, self.d):
            for m in p:
                for s, _ in m:
                    out.add(s)
        return out

    def simplified(self):
        """Cheap canonicalisation: cancel the common monomial factor and the
        numeric content; make the first denominator coefficient 1."""
        n, d = self.n, self.d
        if not n:
            return RF({}, {(): Fraction(1)})
        # if denominator is a single monomial fold it into the numerator
        if len(d) == 1:
            (dm, dc), = d.items()
            inv = tuple((s, -e) for s, e in dm)
            n = {_mono_mul(m, inv): c / dc for m, c in n.items()}
            return RF(n, {(): Fraction(1)})
        # common monomial factor
        syms = set()
        for m in list(n) + list(d):
            syms.update(s for s, _ in m)
        common = []
        for s in sorted(syms):
            es = [dict(m).get(s, 0) for m in list(n) + list(d)]
            e = min(es)
            if e:
                common.append((s, -e))
        if common:
            cm = tuple(common)
            n = {_mono_mul(m, cm): c for m, c in n.items()}
            d = {_mono_mul(m, cm): c for m, c in d.items()}
        lead = d[sorted(d)[0]]
        if lead != 1:
            n = {m: c / lead for m, c in n.items()}
            d = {m: c / lead for m, c in d.items()}
        return RF(n, d)

    def key(self):
        s = self.simplified()
        return "%s/%s" % (_pkey(s.n), _pkey(s.d)) if s.d != {(): Fraction(1)} else _pkey(s.n)

    def __repr__(self):
        return self.key()

    def subst(self, mapping):
        """Substitute symbols by rational functions (mapping: name -> RF/number)."""
        def ps(p):
            out = RF.const(0)
            for m, c in p.items():
                t = RF.const(c)
                for s, e in m:
                    base = lift(mapping[s]) if s in mapping else RF.sym(s)
                    t = t * (base ** e)
                out = out + t
            return out
        return ps(self.n) / ps(self.d)

    def coeff_poly(self, var):
        """For a *polynomial* in ``var`` (denominator free of var): dict
        exponent -> RF coefficient."""
        s = self
        if var in {x for m in s.d for x, _ in m}:
            raise Inconclusive("denominator depends on %s" % var)
        out = {}
        for m, c in s.n.items():
            e = dict(m).get(var, 0)
            rest = tuple((x, k) for x, k in m if x != var)
            cur = out.get(e, RF.const(0))
            out[e] = cur + RF({rest: c}, dict(s.d))
        return {e: v for e, v in out.items() if not v.is_zero()}


def _pkey(p):
    if not p:
        return "0"
    parts = []
    for m in sorted(p):
        c = p[m]
        ms = "*".join(s if e == 1 else "%s^%d" % (s, e) for s, e in m)
        if not ms:
            parts.append(str(c))
        elif c == 1:
            parts.append(ms)
        elif c == -1:
            parts.append("-" + ms)
        else:
            parts.append("%s*%s" % (c, ms))
    return "(" + " + ".join(parts) + ")" if len(parts) > 1 else parts[0]


def lift(v):
    if isinstance(v, RF):
        return v
    if isinstance(v, bool):
        return RF.const(int(v))
    if isinstance(v, (int, Fraction)):
        return RF.const(v)
    if isinstance(v, float):
        return RF.const(Fraction(repr(v)))
    raise Inconclusive("cannot lift %r" % (v,))


OPAQUE_ARGS = {}


def opaque(fname, *args):
    """Symbol standing for an uninterpreted application, named by the normal
    forms of its arguments."""
    name = "%s(%s)" % (fname, ", ".join(a.key() if isinstance(a, RF) else str(a) for a in args))
    OPAQUE_ARGS[name] = (fname, args)
    return RF.sym(name)


def reduce_relations(rf, rounds=8):
    """Rewrite with the algebraic relations of the opaque symbols present:
    sqrt(a)**2 = a and sin(t)**2 = 1 - cos(t)**2.  Returns an RF equal to the
    input modulo those relations with exponents of sqrt/sin symbols < 2."""
    cur = rf
    for _ in range(rounds):
        changed = False
        for s in sorted(cur.symbols()):
            info = OPAQUE_ARGS.get(s)
            if not info:
                continue
            fname, args = info
            if fname == "sqrt" and len(args) == 1:
                repl = args[0]
            elif fname == "sin" and len(args) == 1:
                repl = RF.const(1) - opaque("cos", args[0]) ** 2
            else:
                continue
            for which in ("n", "d"):
                poly = RF(getattr(cur, which))
                cp = poly.coeff_poly(s)
                if any(e >= 2 or e < 0 for e in cp):
                    if any(e < 0 for e in cp):
                        continue
                    new = RF.const(0)
                    for e, c in cp.items():
                        new = new + c * (RF.sym(s) ** (e % 2)) * (repl ** (e // 2))
                    if which == "n":
                        cur = new / RF(cur.d)
                    else:
                        cur = RF(cur.n) / new
                    changed = True
        if not changed:
            break
    return cur


# --------------------------------------------------------------------------
# expression evaluator over RF
# --------------------------------------------------------------------------
OPAQUE_FUNCS = {"cos", "sin", "sqrt", "exp", "log", "abs", "int", "float", "round", "rint", "ceil", "floor",
                "cexp", "complex_exp", "tan", "max", "min", "len"}

_BIN = {ast.Add: lambda a, b: a + b, ast.Sub: lambda a, b: a - b, ast.Mult: lambda a, b: a * b,
        ast.Div: lambda a, b: a / b}


class Evaluator(object):
    """Evaluate a Python expression AST to RF.  ``env`` maps names to RF (or to
    Python callables taking evaluated args).  Unknown names become symbols.
    ``hooks`` may override: call(name, node, args) -> RF or None."""

    def __init__(self, env=None, call_hook=None, attr_hook=None, strict_names=False, constants=None,
                 mod_identity=False, ifexp_hook=None):
        self.mod_identity = mod_identity
        self.ifexp_hook = ifexp_hook
        self.env = dict(env or {})
        self.call_hook = call_hook
        self.attr_hook = attr_hook
        self.strict_names = strict_names
        self.unknown = set()
        self.constants = constants or {}

    def ev(self, e):
        if isinstance(e, ast.Constant):
            v = e.value
            if isinstance(v, bool):
                return RF.const(int(v))
            if isinstance(v, int):
                return RF.const(v)
            if isinstance(v, float):
                if v != v or v in (float("inf"), float("-inf")):
                    return RF.sym(repr(v))
                return RF.const(Fraction(repr(v)))
            if isinstance(v, complex):
                return RF.const(Fraction(repr(v.imag))) * RF.sym("1j") + (RF.const(Fraction(repr(v.real))))
            raise Inconclusive("constant %r" % (v,))
        if isinstance(e, ast.Name):
            if e.id in self.env:
                v = self.env[e.id]
                if isinstance(v, RF):
                    return v
                if isinstance(v, (int, float, Fraction)):
                    return lift(v)
                raise Inconclusive("name %s is not a scalar" % e.id)
            if self.strict_names:
                raise Inconclusive("unbound name %s" % e.id)
            self.unknown.add(e.id)
            return RF.sym(e.id)
        if isinstance(e, ast.UnaryOp):
            if isinstance(e.op, ast.USub):
                return -self.ev(e.operand)
            if isinstance(e.op, ast.UAdd):
                return self.ev(e.operand)
            raise Inconclusive("unary %s" % type(e.op).__name__)
        if isinstance(e, ast.BinOp):
            if isinstance(e.op, ast.Pow):
                return self.power(e)
            if type(e.op) in _BIN:
                a, b = self.ev(e.left), self.ev(e.right)
                return _BIN[type(e.op)](a, b)
            if isinstance(e.op, (ast.Mod, ast.FloorDiv)):
                a, b = self.ev(e.left), self.ev(e.right)
                if self.mod_identity and isinstance(e.op, ast.Mod):
                    return a            # congruence mode: v % m  ==  v  (mod m)
                return opaque({ast.Mod: "mod", ast.FloorDiv: "floordiv"}[type(e.op)], a, b)
            raise Inconclusive("binary %s" % type(e.op).__name__)
        if isinstance(e, ast.Call):
            return self.call(e)
        if isinstance(e, ast.Attribute):
            if self.attr_hook:
                r = self.attr_hook(self, e)
                if r is not None:
                    return r
            raise Inconclusive("attribute %s" % ast.unparse(e))
        if isinstance(e, ast.IfExp):
            if self.ifexp_hook is not None:
                d = self.ifexp_hook(e.test)
                if d is True:
                    return self.ev(e.body)
                if d is False:
                    return self.ev(e.orelse)
            raise Inconclusive("conditional expression %s" % ast.unparse(e))
        if isinstance(e, ast.Subscript):
            if self.attr_hook:
                r = self.attr_hook(self, e)
                if r is not None:
                    return r
            raise Inconclusive("subscript %s" % ast.unparse(e))
        raise Inconclusive("expression %s" % type(e).__name__)

    def power(self, e):
        base = self.ev(e.left)
        try:
            k = self.ev(e.right)
        except Inconclusive:
            raise
        try:
            ki = k.as_int()
            return base ** ki
        except Inconclusive:
            pass
        # e ** X  ==  exp(X)
        if isinstance(e.left, ast.Name) and e.left.id == "e" and "e" not in self.env:
            return opaque("exp", k)
        # symbolic exponent: opaque pow, sign-normalised
        return sym_pow(base, k)

    def call(self, e):
        name = None
        if isinstance(e.func, ast.Name):
            name = e.func.id
        elif isinstance(e.func, ast.Attribute):
            name = e.func.attr
        if self.call_hook:
            r = self.call_hook(self, name, e)
            if r is not None:
                return r
        if isinstance(e.func, ast.Lambda) and not e.keywords:
            # an applied lambda (what is left of an in-lined helper): arguments bound, body evaluated
            a_ = e.func.args
            if not (a_.vararg or a_.kwarg or a_.kwonlyargs or a_.defaults) and len(a_.args) == len(e.args):
                vals = [self.ev(x) for x in e.args]
                saved = self.env
                self.env = dict(self.env)
                try:
                    for p_, v_ in zip(a_.args, vals):
                        self.env[p_.arg] = v_
                    return self.ev(e.func.body)
                finally:
                    self.env = saved
        if isinstance(e.func, ast.Name) and name in self.env and callable(self.env[name]):
            return self.env[name](*[self.ev(a) for a in e.args])
        if isinstance(e.func, ast.Name) and name in OPAQUE_FUNCS and not e.keywords:
            return opaque(name, *[self.ev(a) for a in e.args])
        raise Inconclusive("call %s" % ast.unparse(e))


def sym_pow(base, k):
    """base ** k with symbolic exponent k: opaque, with pow(b, -k) = 1/pow(b, k)."""
    bs = base.simplified()
    if len(bs.n) == 1 and bs.d == {(): Fraction(1)}:
        # single Laurent monomial c * s1^e1 * ...: distribute the power
        (m, c), = bs.n.items()
        if len(m) + (c != 1) > 1 or any(e != 1 for _, e in m):
            r = RF.const(1) if c == 1 else sym_pow(RF.const(c), k)
            for s, e in m:
                r = r * (sym_pow(RF.sym(s), k) ** e)
            return r
    ks = k.simplified()
    lead = None
    if ks.n:
        lead = ks.n[sorted(ks.n)[0]]
    if lead is not None and lead < 0:
        return RF.const(1) / opaque("pow", base, -k)
    return opaque("pow", base, k)


def parse_expr(src):
    return ast.parse(src, mode="eval").body


def ev_src(src, env=None, **kw):
    return Evaluator(env, **kw).ev(parse_expr(src))
