"""E6  constant folding of code-generating code (template frames).

A deliberately small evaluator for the *string-building* fragment of a
function: literals, ``str.format`` / ``join`` / ``replace``, lists,
comprehensions over ``range`` or over literal/abstract sequences, integer
arithmetic, comparisons.  It is used to reconstruct the text the repository
passes to ``exec`` for a given *schema* (abstract coefficient tokens), so that
the generated function can be parsed and analysed as a frame of its own.

Anything outside the fragment raises ``Inconclusive`` (-> ANALYSIS-ERROR).
Only statements that assign tracked variables are folded (a slice); calls are
limited to the whitelisted pure builtins below - no repository function is
ever called.
"""
import ast

from .ratfun import Inconclusive


COMPARED = set()


class Token(object):
    """Abstract coefficient.  ``cls`` in {"one", "minus_one", "zero", "generic",
    "stream"}; ``text`` is what str() of it pastes into generated code."""

    def __init__(self, cls, text, name):
        self.cls = cls
        self.text = text
        self.name = name

    def __str__(self):
        return self.text

    def __format__(self, spec):
        return self.text

    def eq(self, other):
        if self.cls == "stream":
            raise Inconclusive("comparison of a Stream coefficient with %r" % (other,))
        if not isinstance(other, (int, float)):
            raise Inconclusive("comparison of a coefficient with %r" % (other,))
        COMPARED.add(other)         # the literals a coefficient is compared with partition its values into classes
        if self.cls == "const":
            return self.value == other
        val = {"one": 1, "minus_one": -1, "zero": 0}.get(self.cls)
        if val is None:
            return False            # generic: some value the code does not compare with
        return val == other

    def __repr__(self):
        return "<%s %s>" % (self.cls, self.name)


class Obj(object):
    """Abstract object with attributes / items given by dicts."""

    def __init__(self, name, attrs=None):
        self.name = name
        self.attrs = attrs or {}


SAFE_FUNCS = {"len": len, "str": str, "int": int, "range": range, "xrange": range, "list": list, "tuple": tuple,
              "min": min, "max": max, "sorted": sorted, "enumerate": enumerate, "reversed": reversed,
              "zip": zip, "xzip": zip, "abs": abs, "dict": dict, "sum": sum, "any": any, "all": all, "bool": bool}
SAFE_STR_METHODS = {"format", "join", "replace", "strip", "split", "splitlines", "startswith", "endswith", "lower",
                    "upper", "capitalize", "lstrip", "rstrip"}
SAFE_LIST_METHODS = {"append", "extend", "copy", "index", "count", "insert"}
SAFE_DICT_METHODS = {"items", "keys", "values", "get", "setdefault", "copy", "update", "pop"}


class Folder(object):
    def __init__(self, env, isinstance_hook=None, call_hook=None):
        self.env = dict(env)
        self.isinstance_hook = isinstance_hook
        self.call_hook = call_hook

    # ----------------------------------------------------------- expressions
    def ev(self, e):
        m = getattr(self, "ev_" + type(e).__name__, None)
        if m is None:
            raise Inconclusive("cannot fold %s: %s" % (type(e).__name__, ast.unparse(e)[:80]))
        return m(e)

    def ev_Constant(self, e):
        return e.value

    def ev_Name(self, e):
        if e.id in self.env:
            return self.env[e.id]
        if e.id in ("True", "False", "None"):
            return {"True": True, "False": False, "None": None}[e.id]
        raise Inconclusive("unbound name %s while folding" % e.id)

    def ev_List(self, e):
        return [self.ev(x) for x in e.elts]

    def ev_Tuple(self, e):
        return tuple(self.ev(x) for x in e.elts)

    def ev_Dict(self, e):
        return {self.ev(k): self.ev(v) for k, v in zip(e.keys, e.values)}

    def ev_JoinedStr(self, e):
        out = []
        for v in e.values:
            if isinstance(v, ast.Constant):
                out.append(str(v.value))
            elif isinstance(v, ast.FormattedValue):
                out.append(format(self.ev(v.value), ""))
        return "".join(out)

    def ev_Attribute(self, e):
        base = self.ev(e.value)
        if isinstance(base, Obj):
            if e.attr in base.attrs:
                return base.attrs[e.attr]
            raise Inconclusive("attribute %s.%s unknown to the schema" % (base.name, e.attr))
        raise Inconclusive("attribute access %s" % ast.unparse(e))

    def ev_Subscript(self, e):
        base = self.ev(e.value)
        if isinstance(e.slice, ast.Slice):
            lo = self.ev(e.slice.lower) if e.slice.lower else None
            if isinstance(lo, bool):
                lo = int(lo)
            hi = self.ev(e.slice.upper) if e.slice.upper else None
            st = self.ev(e.slice.step) if e.slice.step else None
            return base[lo:hi:st]
        idx = self.ev(e.slice)
        try:
            return base[idx]
        except Exception as ex:
            raise Inconclusive("subscript %s failed: %s" % (ast.unparse(e), ex))

    def ev_UnaryOp(self, e):
        v = self.ev(e.operand)
        if isinstance(e.op, ast.Not):
            return not v
        if isinstance(e.op, ast.USub) and isinstance(v, (int, float)):
            return -v
        if isinstance(e.op, ast.UAdd) and isinstance(v, (int, float)):
            return v
        raise Inconclusive("unary op on %r" % (v,))

    def ev_BinOp(self, e):
        a, b = self.ev(e.left), self.ev(e.right)
        if isinstance(e.op, ast.Mod) and isinstance(a, str):
            # "..%s.." % x : str() of an abstract coefficient is its text
            try:
                return a % (tuple(b) if isinstance(b, (tuple, list)) else b)
            except Exception as ex:
                raise Inconclusive("folding %s: %s" % (ast.unparse(e)[:60], ex))
        ok = (int, str, list, tuple)
        if isinstance(a, bool) or isinstance(b, bool):
            raise Inconclusive("arithmetic on bool")
        if not isinstance(a, ok) or not isinstance(b, ok):
            raise Inconclusive("arithmetic on %r, %r" % (a, b))
        try:
            if isinstance(e.op, ast.Add):
                return a + b
            if isinstance(e.op, ast.Sub):
                return a - b
            if isinstance(e.op, ast.Mult):
                return a * b
            if isinstance(e.op, ast.FloorDiv):
                return a // b
            if isinstance(e.op, ast.Mod) and isinstance(a, int):
                return a % b
            if isinstance(e.op, ast.Mod) and isinstance(a, str):
                return a % b
        except Exception as ex:
            raise Inconclusive("folding %s: %s" % (ast.unparse(e), ex))
        raise Inconclusive("operator %s" % type(e.op).__name__)

    def ev_BoolOp(self, e):
        if isinstance(e.op, ast.And):
            v = True
            for x in e.values:
                v = self.ev(x)
                if not v:
                    return v
            return v
        v = False
        for x in e.values:
            v = self.ev(x)
            if v:
                return v
        return v

    def ev_IfExp(self, e):
        return self.ev(e.body) if self.ev(e.test) else self.ev(e.orelse)

    def ev_Compare(self, e):
        left = self.ev(e.left)
        for op, c in zip(e.ops, e.comparators):
            right = self.ev(c)
            r = self._cmp(op, left, right)
            if not r:
                return False
            left = right
        return True

    def _cmp(self, op, a, b):
        if isinstance(a, Token) or isinstance(b, Token):
            tok, other = (a, b) if isinstance(a, Token) else (b, a)
            if isinstance(other, Token):
                raise Inconclusive("comparison between two coefficients")
            if isinstance(op, ast.Eq):
                return tok.eq(other)
            if isinstance(op, ast.NotEq):
                return not tok.eq(other)
            raise Inconclusive("ordering comparison on a coefficient")
        if isinstance(op, ast.Is):
            return a is b
        if isinstance(op, ast.IsNot):
            return a is not b
        try:
            if isinstance(op, ast.Eq):
                return a == b
            if isinstance(op, ast.NotEq):
                return a != b
            if isinstance(op, ast.Lt):
                return a < b
            if isinstance(op, ast.LtE):
                return a <= b
            if isinstance(op, ast.Gt):
                return a > b
            if isinstance(op, ast.GtE):
                return a >= b
            if isinstance(op, ast.In):
                return a in b
            if isinstance(op, ast.NotIn):
                return a not in b
        except Exception as ex:
            raise Inconclusive("comparison failed: %s" % ex)
        raise Inconclusive("comparison %s" % type(op).__name__)

    def _comp(self, e, elt_fn):
        out = []

        def rec(i, ):
            if i == len(e.generators):
                out.append(elt_fn())
                return
            g = e.generators[i]
            seq = self.ev(g.iter)
            saved = dict(self.env)
            for item in self._iterate(seq):
                self.bind(g.target, item)
                if all(self.ev(c) for c in g.ifs):
                    rec(i + 1)
            # comprehension variables do not leak in py3
            for k in list(self.env):
                if k not in saved:
                    del self.env[k]
            self.env.update({k: v for k, v in saved.items()})
        rec(0)
        return out

    def _iterate(self, seq):
        if isinstance(seq, (list, tuple, range, str)):
            return list(seq)
        if isinstance(seq, dict):
            return list(seq)
        if hasattr(seq, "__iter__") and not isinstance(seq, (Token, Obj)):
            return list(seq)
        raise Inconclusive("iteration over %r" % (seq,))

    def ev_ListComp(self, e):
        return self._comp(e, lambda: self.ev(e.elt))

    def ev_GeneratorExp(self, e):
        return self._comp(e, lambda: self.ev(e.elt))

    def ev_Call(self, e):
        if self.call_hook is not None:
            r = self.call_hook(self, e)
            if r is not NotImplemented:
                return r
        f = e.func
        if any(isinstance(a, ast.Starred) for a in e.args):
            raise Inconclusive("star-args while folding %s" % ast.unparse(e)[:60])
        kwargs = {}
        for kw in e.keywords:
            if kw.arg is None:
                d = self.ev(kw.value)
                if not isinstance(d, dict):
                    raise Inconclusive("** of a non-dict")
                kwargs.update(d)
            else:
                kwargs[kw.arg] = self.ev(kw.value)
        if isinstance(f, ast.Lambda):
            # an applied lambda (an in-lined helper): bind and evaluate the body
            a_ = f.args
            if a_.vararg or a_.kwarg or a_.kwonlyargs or len(a_.args) != len(e.args) or e.keywords:
                raise Inconclusive("applied lambda with a signature that is not positional")
            saved = dict(self.env)
            try:
                vals = [self.ev(x) for x in e.args]
                for p_, v_ in zip(a_.args, vals):
                    self.env[p_.arg] = v_
                return self.ev(f.body)
            finally:
                self.env = saved
        if isinstance(f, ast.Name):
            if f.id == "format" and 1 <= len(e.args) <= 2 and "format" not in self.env:
                args = [self.ev(a) for a in e.args]
                try:
                    return format(*args)
                except Exception as ex:
                    raise Inconclusive("folding %s: %s" % (ast.unparse(e)[:60], ex))
            if f.id == "isinstance" and len(e.args) == 2:
                if self.isinstance_hook is None:
                    raise Inconclusive("isinstance while folding")
                return self.isinstance_hook(self.ev(e.args[0]), ast.unparse(e.args[1]))
            if f.id in ("iteritems",) and len(e.args) == 1:
                d = self.ev(e.args[0])
                if isinstance(d, dict):
                    return list(d.items())
                raise Inconclusive("iteritems of non-dict")
            if f.id in SAFE_FUNCS and f.id not in self.env:
                args = [self.ev(a) for a in e.args]
                if any(isinstance(a, (Token, Obj)) for a in args):
                    if f.id == "str" and isinstance(args[0], Token):
                        return args[0].text
                    raise Inconclusive("%s() of an abstract value" % f.id)
                try:
                    r = SAFE_FUNCS[f.id](*args, **kwargs)
                except Exception as ex:
                    raise Inconclusive("folding %s: %s" % (ast.unparse(e)[:60], ex))
                return list(r) if f.id in ("enumerate", "reversed", "zip", "xzip") else r
            raise Inconclusive("call of %s while folding" % f.id)
        if isinstance(f, ast.Attribute):
            recv = self.ev(f.value)
            args = [self.ev(a) for a in e.args]
            if isinstance(recv, str) and f.attr in SAFE_STR_METHODS:
                if f.attr == "join":
                    args = [[format(x, "") if isinstance(x, Token) else x for x in self._iterate(args[0])]]
                try:
                    return getattr(recv, f.attr)(*args, **kwargs)
                except Exception as ex:
                    raise Inconclusive("folding %s: %s" % (ast.unparse(e)[:60], ex))
            if isinstance(recv, list) and f.attr in SAFE_LIST_METHODS:
                if f.attr == "extend":
                    args = [self._iterate(args[0])]
                return getattr(recv, f.attr)(*args)
            if isinstance(recv, dict) and f.attr == "terms" and hasattr(recv, "terms") and not args:
                return list(recv.terms())
            if isinstance(recv, dict) and f.attr in SAFE_DICT_METHODS:
                r = getattr(recv, f.attr)(*args)
                return list(r) if f.attr in ("items", "keys", "values") else r
        raise Inconclusive("call %s while folding" % ast.unparse(e)[:80])

    # ------------------------------------------------------------ statements
    def bind(self, target, value):
        if isinstance(target, ast.Name):
            self.env[target.id] = value
        elif isinstance(target, (ast.Tuple, ast.List)):
            vals = self._iterate(value)
            if len(vals) != len(target.elts):
                raise Inconclusive("unpacking mismatch")
            for t, v in zip(target.elts, vals):
                self.bind(t, v)
        elif isinstance(target, ast.Attribute):
            base = self.ev(target.value)
            if not isinstance(base, Obj):
                raise Inconclusive("attribute assignment on a non-schema object")
            base.attrs[target.attr] = value
        elif isinstance(target, ast.Subscript):
            base = self.ev(target.value)
            if isinstance(target.slice, ast.Slice):
                raise Inconclusive("slice assignment")
            base[self.ev(target.slice)] = value
        else:
            raise Inconclusive("assignment target %s" % ast.unparse(target))

    def run(self, stmts, tracked=None):
        """Fold a statement list.  When ``tracked`` is given only statements
        that (transitively) write a tracked name are folded; the others are
        skipped.  ``return`` ends the fold with its value."""
        for st in stmts:
            if tracked is not None and not writes(st, tracked):
                continue
            r = self.stmt(st, tracked)
            if r is not None:
                return r
        return None

    def stmt(self, st, tracked):
        if isinstance(st, ast.Assign):
            v = self.ev(st.value)
            for t in st.targets:
                self.bind(t, v)
        elif isinstance(st, ast.AugAssign):
            cur = self.ev(st.target)
            v = self.ev(st.value)
            if isinstance(st.op, ast.Add) and isinstance(cur, list):
                cur = cur + self._iterate(v)        # += on a list rebinding is equivalent here
            elif isinstance(st.op, ast.Add) and isinstance(cur, (int, str)) and type(cur) is type(v):
                cur = cur + v
            elif isinstance(st.op, ast.Sub) and isinstance(cur, int) and isinstance(v, int):
                cur = cur - v
            else:
                raise Inconclusive("augmented assignment %s" % ast.unparse(st))
            self.bind(st.target, cur)
        elif isinstance(st, ast.Expr):
            if isinstance(st.value, ast.Constant):
                return None
            self.ev(st.value)
        elif isinstance(st, ast.If):
            if self.ev(st.test):
                return self.run(st.body, tracked)
            return self.run(st.orelse, tracked)
        elif isinstance(st, ast.For):
            for item in self._iterate(self.ev(st.iter)):
                self.bind(st.target, item)
                r = self.run(st.body, tracked)
                if r is not None:
                    return r
        elif isinstance(st, ast.Return):
            return ("return", self.ev(st.value) if st.value is not None else None)
        elif isinstance(st, ast.Pass):
            pass
        elif isinstance(st, ast.Raise):
            return ("raise", ast.unparse(st))
        else:
            raise Inconclusive("statement %s while folding" % type(st).__name__)
        return None


def writes(st, tracked):
    """Does the statement (or anything nested in it) assign / mutate a tracked name?"""
    for n in ast.walk(st):
        if isinstance(n, (ast.Assign, ast.AugAssign)):
            tgts = n.targets if isinstance(n, ast.Assign) else [n.target]
            for t in tgts:
                for x in ast.walk(t):
                    if isinstance(x, ast.Name) and x.id in tracked:
                        return True
        elif isinstance(n, ast.Call) and isinstance(n.func, ast.Attribute) and n.func.attr in ("append", "extend") \
                and isinstance(n.func.value, ast.Name) and n.func.value.id in tracked:
            return True
    return False
