"""Live-range renaming ("webs") for one function scope.

Reaching definitions are computed over the structured AST (if / while / for / try / with, break / continue / return /
raise); every use is united with all the definitions that reach it; each resulting web is a variable in its own right
and gets its own name.  Splitting one local into several, or re-using one name for several unrelated values, therefore
leaves the result unchanged.  The entry definition of a parameter keeps the parameter's name.

Closures (nested functions, lambdas, the lazily evaluated part of generator expressions) see the *variable*: every
definition of a name they mention is put in one web.  Names declared global / nonlocal are left alone.
"""
import ast

from .core import FuncTypes

_COMPS = (ast.GeneratorExp, ast.ListComp, ast.SetComp, ast.DictComp)


class _UF(object):
    def __init__(self):
        self.p = {}

    def find(self, x):
        self.p.setdefault(x, x)
        while self.p[x] != x:
            self.p[x] = self.p[self.p[x]]
            x = self.p[x]
        return x

    def union(self, a, b):
        ra, rb = self.find(a), self.find(b)
        if ra != rb:
            self.p[max(ra, rb)] = min(ra, rb)


def _join(a, b):
    if a is None:
        return b
    if b is None:
        return a
    out = dict(a)
    for k, v in b.items():
        out[k] = out.get(k, frozenset()) | v
    return out


class Webs(object):
    def __init__(self, fn):
        self.fn = fn
        self.uf = _UF()
        self.occ = []            # (Name node or (node, attr), def id it belongs to)
        self.next_id = 0
        self.name_of = {}
        self.entry = {}
        self.def_of = {}
        self.skip = set()
        for n in ast.walk(fn):
            if isinstance(n, (ast.Global, ast.Nonlocal)):
                self.skip |= set(n.names)
        self.locals = self._locals()
        self.loops = []          # stack of (break_states, continue_states)
        self.tries = []          # stack of lists collecting intermediate states
        self.captured_uses = []  # names read by closures
        self.capture_info = {}   # id(Name) -> (definitions reaching the closure's creation, first later definition id) | None

    # ------------------------------------------------------------------ setup
    def _own_walk(self):
        stack = list(self.fn.body)
        while stack:
            n = stack.pop()
            yield n
            if isinstance(n, FuncTypes):
                stack.extend(n.decorator_list)
                stack.extend(n.args.defaults)
                stack.extend(x for x in n.args.kw_defaults if x is not None)
                continue
            if isinstance(n, ast.Lambda):
                stack.extend(n.args.defaults)
                continue
            stack.extend(ast.iter_child_nodes(n))

    def _locals(self):
        a = self.fn.args
        out = {x.arg for x in a.posonlyargs + a.args + a.kwonlyargs}
        if a.vararg:
            out.add(a.vararg.arg)
        if a.kwarg:
            out.add(a.kwarg.arg)
        self.params = set(out)
        comp_targets = set()
        for n in self._own_walk():
            if isinstance(n, ast.comprehension):
                for t in ast.walk(n.target):
                    comp_targets.add(id(t))
        for n in self._own_walk():
            if isinstance(n, ast.Name) and isinstance(n.ctx, (ast.Store, ast.Del)) and id(n) not in comp_targets:
                out.add(n.id)
            elif isinstance(n, FuncTypes + (ast.ClassDef,)):
                out.add(n.name)
            elif isinstance(n, ast.ExceptHandler) and n.name:
                out.add(n.name)
        return out - self.skip

    def _new_def(self, name, key=None):
        if key is not None and key in self.def_of:
            return self.def_of[key]
        i = self.next_id
        if key is not None:
            self.def_of[key] = i
        self.next_id += 1
        self.name_of[i] = name
        self.uf.find(i)
        return i

    # ------------------------------------------------------------------ uses / defs
    def use(self, node, state, env):
        """a read of Name ``node``"""
        name = node.id
        if name in env or name not in self.locals:
            return
        ds = state.get(name, frozenset()) if state is not None else frozenset()
        if not ds:
            ds = frozenset([self.entry[name]])
        first = min(ds)
        for d in ds:
            self.uf.union(first, d)
        self.occ.append((node, first))

    def define(self, node, state, env, name=None, holder=None):
        nm = name or node.id
        if nm in env or nm not in self.locals:
            return state
        d = self._new_def(nm, id(holder[0]) if holder is not None else id(node))
        if holder is not None:
            self.occ.append((holder, d))
        else:
            self.occ.append((node, d))
        if state is None:
            return None
        state = dict(state)
        state[nm] = frozenset([d])
        self._trace(state)
        return state

    def _trace(self, state):
        for coll in self.tries:
            coll.append(state)

    # ------------------------------------------------------------------ expressions
    def expr(self, node, state, env):
        """evaluate an expression: record uses; returns state (named expressions may define)"""
        if node is None:
            return state
        if isinstance(node, ast.Name):
            if isinstance(node.ctx, ast.Load):
                self.use(node, state, env)
            return state
        if isinstance(node, ast.NamedExpr):
            state = self.expr(node.value, state, env)
            return self.define(node.target, state, env)
        if isinstance(node, ast.Lambda):
            for d in node.args.defaults + [x for x in node.args.kw_defaults if x is not None]:
                state = self.expr(d, state, env)
            a = node.args
            inner = {x.arg for x in a.posonlyargs + a.args + a.kwonlyargs} | \
                    {x.arg for x in (a.vararg, a.kwarg) if x}
            self.capture(node.body, env | inner, state)
            return state
        if isinstance(node, _COMPS):
            e2 = set(env)
            lazy = isinstance(node, ast.GeneratorExp)
            for k, gen in enumerate(node.generators):
                if k == 0 or not lazy:
                    state = self.expr(gen.iter, state, frozenset(e2))
                else:
                    self.capture(gen.iter, frozenset(e2), state)
                e2 |= {t.id for t in ast.walk(gen.target) if isinstance(t, ast.Name)}
                for c in gen.ifs:
                    if lazy:
                        self.capture(c, frozenset(e2), state)
                    else:
                        state = self.expr(c, state, frozenset(e2))
            for fld in ("elt", "key", "value"):
                if hasattr(node, fld):
                    if lazy:
                        self.capture(getattr(node, fld), frozenset(e2), state)
                    else:
                        state = self.expr(getattr(node, fld), state, frozenset(e2))
            return state
        if isinstance(node, ast.BoolOp):
            state = self.expr(node.values[0], state, env)
            out = state
            for v in node.values[1:]:
                s2 = self.expr(v, out, env)
                out = _join(out, s2)
            return out
        if isinstance(node, ast.IfExp):
            state = self.expr(node.test, state, env)
            a = self.expr(node.body, state, env)
            b = self.expr(node.orelse, state, env)
            return _join(a, b)
        for ch in ast.iter_child_nodes(node):
            if isinstance(ch, ast.expr) or isinstance(ch, (ast.keyword, ast.comprehension, ast.Starred, ast.FormattedValue)):
                state = self.expr(ch, state, env) if isinstance(ch, ast.expr) else self._generic(ch, state, env)
        return state

    def _generic(self, node, state, env):
        for ch in ast.iter_child_nodes(node):
            if isinstance(ch, ast.expr):
                state = self.expr(ch, state, env)
            elif isinstance(ch, ast.AST):
                state = self._generic(ch, state, env)
        return state

    def capture(self, node, env, state=None):
        """names read by a closure: they see whatever the variable holds when the closure runs - a definition that
        reaches the point where the closure is made, or any definition made later.  Outside loops "later" is "further
        down" (control only moves forward); inside a loop every definition of the name counts."""
        for n in ast.walk(node):
            if isinstance(n, ast.Name) and n.id in self.locals and n.id not in env:
                self.captured_uses.append(n)
                reach = None
                if state is not None and not self.loops:
                    reach = (state.get(n.id, frozenset()) or frozenset([self.entry[n.id]]), self.next_id)
                self.capture_info[id(n)] = reach if id(n) not in self.capture_info or reach is None else self.capture_info[id(n)]

    def target(self, t, state, env):
        if isinstance(t, ast.Name):
            return self.define(t, state, env)
        if isinstance(t, (ast.Tuple, ast.List)):
            for e in t.elts:
                state = self.target(e, state, env)
            return state
        if isinstance(t, ast.Starred):
            return self.target(t.value, state, env)
        # attribute / subscript target: reads of the object
        return self.expr(t, state, env)

    # ------------------------------------------------------------------ statements
    def block(self, stmts, state):
        for st in stmts:
            state = self.stmt(st, state)
        return state

    def stmt(self, st, state):
        env = frozenset()
        if state is None and not isinstance(st, FuncTypes):
            # unreachable code: still record occurrences so that they get *some* consistent name
            state = {}
        if isinstance(st, ast.Assign):
            state = self.expr(st.value, state, env)
            for t in st.targets:
                state = self.target(t, state, env)
            return state
        if isinstance(st, ast.AnnAssign):
            state = self.expr(st.value, state, env)
            return self.target(st.target, state, env) if st.value is not None else state
        if isinstance(st, ast.AugAssign):
            if isinstance(st.target, ast.Name):
                nm = st.target.id
                state = self.expr(st.value, state, env)
                if nm in self.locals:
                    ds = state.get(nm, frozenset()) or frozenset([self.entry[nm]])
                    d = self._new_def(nm, id(st.target))
                    for x in ds:
                        self.uf.union(d, x)
                    self.occ.append((st.target, d))
                    state = dict(state)
                    state[nm] = frozenset([d])
                    self._trace(state)
                return state
            state = self.expr(st.target, state, env)
            return self.expr(st.value, state, env)
        if isinstance(st, (ast.Expr, ast.Return, ast.Raise, ast.Assert, ast.Delete)):
            if isinstance(st, ast.Delete):
                for t in st.targets:
                    if isinstance(t, ast.Name) and t.id in self.locals:
                        ds = state.get(t.id, frozenset()) or frozenset([self.entry[t.id]])
                        first = min(ds)
                        for x in ds:
                            self.uf.union(first, x)
                        self.occ.append((t, first))
                    else:
                        state = self.expr(t, state, env)
                return state
            state = self._generic(st, state, env)
            if isinstance(st, (ast.Return, ast.Raise)):
                return None
            return state
        if isinstance(st, ast.If):
            state = self.expr(st.test, state, env)
            a = self.block(st.body, state)
            b = self.block(st.orelse, state)
            return _join(a, b)
        if isinstance(st, ast.While):
            head = state
            exit_state = None
            for _ in range(4):
                self.loops.append(([], []))
                s_test = self.expr(st.test, head, env)
                s_end = self.block(st.body, s_test)
                brk, cont = self.loops.pop()
                back = s_end
                for c in cont:
                    back = _join(back, c)
                new_head = _join(state, back)
                exit_state = s_test
                els = self.block(st.orelse, s_test) if st.orelse else s_test
                exit_state = els
                for b_ in brk:
                    exit_state = _join(exit_state, b_)
                if new_head == head:
                    break
                head = new_head
            if isinstance(st.test, ast.Constant) and st.test.value:
                # ``while True``: only a break leaves
                exit_state = None
                for b_ in brk:
                    exit_state = _join(exit_state, b_)
            return exit_state
        if isinstance(st, ast.For):
            state = self.expr(st.iter, state, env)
            head = state
            exit_state = None
            first_target_state = None
            for _ in range(4):
                self.loops.append(([], []))
                s_in = self.target(st.target, head, env)
                s_end = self.block(st.body, s_in)
                brk, cont = self.loops.pop()
                back = s_end
                for c in cont:
                    back = _join(back, c)
                new_head = _join(state, back)
                els = self.block(st.orelse, head) if st.orelse else head
                exit_state = els
                for b_ in brk:
                    exit_state = _join(exit_state, b_)
                if new_head == head:
                    break
                head = new_head
            return exit_state
        if isinstance(st, ast.With):
            for item in st.items:
                state = self.expr(item.context_expr, state, env)
                if item.optional_vars is not None:
                    state = self.target(item.optional_vars, state, env)
            return self.block(st.body, state)
        if isinstance(st, ast.Try):
            coll = [state]
            self.tries.append(coll)
            s_body = self.block(st.body, state)
            self.tries.pop()
            any_state = None
            for c in coll:
                any_state = _join(any_state, c)
            out = self.block(st.orelse, s_body) if st.orelse else s_body
            for h in st.handlers:
                hs = any_state
                if h.type is not None:
                    hs = self.expr(h.type, hs, env)
                if h.name and h.name in self.locals:
                    hs = self.define(None, hs, env, name=h.name, holder=(h, "name"))
                out = _join(out, self.block(h.body, hs))
            if st.finalbody:
                fin_in = _join(out, any_state)
                out2 = self.block(st.finalbody, fin_in)
                return out2 if out is not None else None
            return out
        if isinstance(st, FuncTypes):
            for d in st.decorator_list + st.args.defaults + [x for x in st.args.kw_defaults if x is not None]:
                state = self.expr(d, state, env)
            a = st.args
            inner = {x.arg for x in a.posonlyargs + a.args + a.kwonlyargs} | {x.arg for x in (a.vararg, a.kwarg) if x}
            own = set(inner)
            declared = set()
            for n in ast.walk(st):
                if isinstance(n, ast.Name) and isinstance(n.ctx, (ast.Store, ast.Del)):
                    own.add(n.id)
                elif isinstance(n, ast.Nonlocal):
                    declared |= set(n.names)
            for b in st.body:
                self.capture(b, frozenset(own - declared), state)
            # a nested function assigning a nonlocal: every definition of that name is one variable
            for nm in declared:
                if nm in self.locals:
                    self.skip.add(nm)
            if st.name in self.locals:
                state = self.define(None, state, env, name=st.name, holder=(st, "name"))
            return state
        if isinstance(st, ast.ClassDef):
            state = self._generic(st, state, env)
            if st.name in self.locals:
                state = self.define(None, state, env, name=st.name, holder=(st, "name"))
            return state
        if isinstance(st, ast.Break):
            if self.loops:
                self.loops[-1][0].append(state)
            return None
        if isinstance(st, ast.Continue):
            if self.loops:
                self.loops[-1][1].append(state)
            return None
        if isinstance(st, (ast.Import, ast.ImportFrom)):
            for al in st.names:
                nm = al.asname or al.name.split(".")[0]
                if nm in self.locals:
                    state = self.define(None, state, env, name=nm, holder=(al, "asname" if al.asname else "name"))
            return state
        if isinstance(st, (ast.Pass, ast.Global, ast.Nonlocal)):
            return state
        return self._generic(st, state, env)

    # ------------------------------------------------------------------ driver
    def run(self):
        state = {}
        for nm in sorted(self.locals):
            d = self._new_def(nm)
            self.entry[nm] = d
            state[nm] = frozenset([d])
        # the loop analyses re-visit bodies: occurrences are recorded several times, harmlessly
        self.block(self.fn.body, state)
        # closures: all definitions of a captured name are one variable
        by_name = {}
        for d, nm in self.name_of.items():
            by_name.setdefault(nm, []).append(d)
        self.captured_web = {}
        for n in self.captured_uses:
            info = self.capture_info.get(id(n))
            ds = by_name.get(n.id, [])
            if info is None:
                group = list(ds)
            else:
                group = sorted(info[0]) + [d for d in ds if d >= info[1]]
            for d in group[1:]:
                self.uf.union(group[0], d)
            if group:
                self.captured_web[id(n)] = group[0]
        for nm in self.skip:
            ds = by_name.get(nm, [])
            for d in ds[1:]:
                self.uf.union(ds[0], d)
        return self

    def rename(self):
        """apply: each web other than the one holding the entry definition gets ``<name>__w<k>``"""
        self.run()
        web_names = {}
        counters = {}
        # a name all of whose occurrences belong to one web needs no new name (keeps the renaming idempotent)
        used_webs = {}
        for holder, d in self.occ:
            used_webs.setdefault(self.name_of[d], set()).add(self.uf.find(d))
        for n in self.captured_uses:
            if id(n) in self.captured_web:
                used_webs.setdefault(n.id, set()).add(self.uf.find(self.captured_web[id(n)]))
        single = {nm for nm, ws in used_webs.items() if len(ws) == 1}
        # deterministic: webs numbered by the smallest definition id they contain
        for d in sorted(self.name_of):
            r = self.uf.find(d)
            nm = self.name_of[d]
            if r in web_names:
                continue
            if r == self.uf.find(self.entry[nm]) or nm in single:
                web_names[r] = nm
            else:
                counters[nm] = counters.get(nm, 0) + 1
                web_names[r] = "%s__w%d" % (nm, counters[nm])
        for holder, d in self.occ:
            new = web_names[self.uf.find(d)]
            if isinstance(holder, tuple):
                node, attr = holder
                if attr in ("name", "asname") and isinstance(node, ast.alias):
                    if new != (node.asname or node.name.split(".")[0]):
                        node.asname = new
                else:
                    setattr(node, attr, new)
            else:
                holder.id = new
        for n in self.captured_uses:
            if id(n) in self.captured_web:
                n.id = web_names[self.uf.find(self.captured_web[id(n)])]
        return self.fn


def split_webs(fn):
    """Rename the locals of ``fn`` (and, recursively, of its nested functions) web by web."""
    w = Webs(fn)
    w.rename()
    for n in w._own_walk():
        if isinstance(n, FuncTypes):
            split_webs(n)
    return fn
