"""Single source for MANIFEST.json (tools/gen_manifest.py)."""
NOTE = ("Trusted: CPython's ast; the documented semantics of map/zip/itertools/operator, PEP 479 and operator "
        "precedence; the checker's own normaliser (sa/ratfun.py) and the fact tables printed in the evidence. "
        "Decides only the structural clauses named in the level text; sample values are not computed.")

ENGINES = [
    {"name": "sa", "path": "/verif/sa", "serves_properties": ["C%02d" % i for i in range(1, 21)],
     "kind_free_text": "repository-specific static analysis over Python ast: StopIteration-escape (PEP 479), "
                       "tee/linear-use accounting, pull/yield typestate, template-frame reconstruction of exec'd code, "
                       "rational normal forms, sibling/consistency rules, lock-order and wake-up analysis, decision "
                       "tables over representative operand kinds, byte-decoder interpretation; the functions are read "
                       "through a normalised view (alpha-renaming towards the confirmed tree, adoption of units proved "
                       "equivalent, helper inlining, stable local aliases written back under a package-wide "
                       "who-may-write table) so that behaviour-preserving refactorings do not change the verdict"},
]

CHECKS = {
    "C14": {
        "text": "Static analysis: the 14 exec'd window functions are reconstructed by folding the table and the two "
                "templates exactly as the generator does; periodic/symmetric prefix relation by construction (same "
                "formula, size rebound to size-1 in one tuple assignment, [1.0] for size 1) for every size; formula = "
                "documented closed form (normal form); symmetry under n -> size-n by atom typing; constant overlap-add "
                "from harmonic sets; cross links. Values in floating point are not computed.",
        "note": NOTE,
        "technique": "template reconstruction (constant folding) + normal forms + harmonic-set analysis",
    },
    "C15": {
        "text": "Static analysis: who-may-write check on the three stores over the whole package; pairing and order of "
                "the writes on the single path of __setitem__ and on both arms of __delitem__ (same key tuple and value "
                "in all three stores; KeyError propagates); lookups/iteration through the maps; StrategyDict attribute and "
                "default handling with the same key tuple. Model equivalence over histories is not decided.",
        "note": NOTE,
        "technique": "ownership (who-may-write) + per-path pairing of store updates + decision tables (effects of StrategyDict set / delete counted per scenario)",
    },
    "C16": {
        "text": "Static analysis: negative-delta guard dominates the enqueue; time counter only updated relatively "
                "(no drift), starts at 0.5; FIFO start loop condition; protected next() of every playing iterator; no "
                "list mutated while iterated; stop test reads keep/playing/pending between removal and the single yield; "
                "ControlStream reads its attribute inside the loop. Numeric start samples are not computed.",
        "note": NOTE,
        "technique": "dominance/ordering rules + mutation-while-iterating check + PEP-479 escape analysis",
    },
    "C17": {
        "text": "Static analysis of the concurrency structure: lock-order graph through the resolved call graph is "
                "acyclic; no join under a lock the joined thread takes; _threads written only under its lock; terminate "
                "guarded by the finished test-and-set; close() stops/joins every listed thread; stop protocol - with the "
                "state stop() leaves behind, every untimed wait in run() is woken and every path reaches break within "
                "one chunk; each chunk written once, unconditionally, in order. Schedules are not explored.",
        "note": NOTE,
        "technique": "lock-set / lock-order analysis over a resolved call graph (receivers typed through constructors, containers and method return types) + abstract walk of the stop protocol in both directions + decision tables for close() (statements that run per scenario, through helper methods)",
    },
    "C18": {
        "text": "Static analysis: stdlib attributes used on array/Struct/Wave_read objects exist on this interpreter; the "
                "two chunk strategies share a signature and read every parameter; byte-order swap table vs sys.byteorder "
                "and swap-back; counter automaton of chunks.array; unpacker table (little-endian, calcsize = width + "
                "prefix, 24-bit zero-prefix and >> 8); normalisation by 1 << (bits-1) with the 8-bit offset; file closed "
                "in a finally. Byte-exact round trips are not executed.",
        "note": NOTE,
        "technique": "stdlib availability (reflection) + sibling-parameter rule + format-table checks",
    },
    "C07": {
        "text": "Static analysis: the coefficient store is written only through the compacting constructor/__setitem__/"
                "zero setter (no zero coefficient can be stored); term-wise identities of *, +, -, unary, ** and / in "
                "normal form; diff/integrate maps compose to the identity and diff is linear; Horner recurrence on both "
                "branches and direct/compositional evaluation; eq/ne/hash coherence; Lagrange basis term. Ring laws on "
                "concrete values follow from these term-wise identities and are not re-proved.",
        "note": NOTE,
        "technique": "who-may-write check on the store + rational-normal-form comparison of term maps; decision tables over argument kinds (constructor, operators, evaluation)",
    },
    "C10": {
        "text": "Static analysis: symbolic index-range analysis shows every subscript of acorr/lag_matrix/toeplitz stays "
                "exactly within [0, len-1] (no silent negative wrap, no dropped term), the factor indices differ by the "
                "lag; Levinson-Durbin and covariance Gram-Schmidt statements compared in normal form with the inner "
                "product opaque; .error assigned before every return; one order for both stages of kautocor. Does not "
                "prove that the recursions solve the normal equations.",
        "note": NOTE,
        "technique": "symbolic interval analysis of subscripts + normal-form statement comparison",
    },
    "C11": {
        "text": "Static analysis: homogeneity-degree analysis shows the polynomial handed to the step-down recursion by "
                "parcor_stable has degree 0 in the filter gain; strict '< 1' against every coefficient, ParCorError -> "
                "False; ParCorError raised only from a caught division by zero; step-down statements in normal form. "
                "The Schur-Cohn equivalence with pole positions is trusted mathematics, not decided.",
        "note": NOTE,
        "technique": "homogeneity-degree abstract interpretation + normal-form statement comparison",
    },
    "C12": {
        "text": "Static analysis: evaluation point exp(-1j*freq) for both polynomials, nan guard before the division, "
                "dft kernel x_n*exp(-1j*n*f) with the same sign convention, normalisation only under the flag, broadcast "
                "position of freq, cascade = product / parallel = sum. Numeric agreement with filtering is not decided.",
        "note": NOTE,
        "technique": "normal-form comparison of the exponent and of the reduction shapes; dft bin extracted per normalize scenario (decision table + value flow)",
    },
    "C13": {
        "text": "Static analysis: tee budgets of all design strategies with Stream parameters (use counting per path); "
                "DC/Nyquist gain identically 1, half-power identity at the cut-off for the pole/z strategies (modulo "
                "sqrt^2 and sin^2+cos^2 relations), pole sign and documented R, resonator denominators with "
                "R = exp(-bandwidth/2) and zeros at +-1, comb forms, gammatone normalisation - all as identities in the "
                "design parameters. Monotonicity and numeric pole radius are not decided.",
        "note": NOTE,
        "technique": "rational normal forms with algebraic relations + linear-use accounting; unit-gain identity of the resonators as a polynomial identity",
    },
    "C01": {
        "text": "Static analysis: operand provenance of every operator application in the four metaclass template "
                "families; the operator table folded and compared entry by entry with the Python data model (independent "
                "oracle) incl. dispatch on (rev, arity); Stream templates are Stream(map(op, iter(self)[, iter(other)])) "
                "(stdlib map semantics = element-wise, shortest operand); elementwise wrapper substitutes exactly the "
                "broadcast position and preserves laziness/container kind; decorator/signature agreement of the "
                "broadcast family. Element values are not computed.",
        "note": NOTE,
        "technique": "provenance analysis + constant folding of the operator table against the data model; decision tables over operand kinds (guards evaluated per scenario)",
    },
    "C09": {
        "text": "Static analysis: overlap-add memory slices normalised to (start, stop) over symbolic size/hop - "
                "shift-add lengths agree, emitted prefix and flushed suffix complementary (m*hop + size - hop samples), "
                "blocks consumed as iterators, mul/add operators, normalisation gain shape; stft wrapper routing "
                "(ola_params copied while blk_params = {size, hop}; only ola_-prefixed options forwarded, prefix "
                "stripped) and stage order (window first, then before/transform/func/inverse/after); no StopIteration "
                "escape from size detection. Numeric sums are not computed.",
        "note": NOTE,
        "technique": "symbolic slice algebra + ordered routing/dataflow checks + PEP-479 escape analysis; decision tables over window kinds, options and normalisation arms",
    },
    "C08": {
        "text": "Static analysis: zero_pad summarised into its three yield segments (complete for that sentence); blocks "
                "analysed as a counter automaton over idx with symbolic size/hop: first block after exactly size appended "
                "items, period exactly hop pulled items (hop-size skipped, size appended when hop > size), reset size-hop "
                "in both loops, append-before-yield, tail test idx > max(size-hop, 0) and padding of size-idx values. "
                "With deque(maxlen=size) this is 'block k = items k*hop..k*hop+size-1' for every input length.",
        "note": NOTE,
        "technique": "yield-segment summaries + symbolic counter-automaton derivation (linear normal forms)",
    },
    "C19": {
        "text": "Static analysis: every loop leaf of modulo_counter simulated one iteration in normal form (accumulator "
                "L = c + n*step - lastp advances by the current step modulo `modulo`, yields L + start reduced twice), "
                "fast path included; line/ones/zeros/impulse/noise/adsr/attack yield segments compared with closed forms; "
                "sinusoid/karplus_strong/fade bindings; TableLookup interpolation weights and index step; resample has "
                "no StopIteration escape and the documented window/threshold/step shape. Values in floating point are "
                "not computed.",
        "note": NOTE,
        "technique": "per-leaf inductive step in rational normal form + yield-segment summaries + PEP-479 escape analysis; kind consistency of dispatch leaves, evaluated duration guards, frozen table of documented defaults",
    },
    "C20": {
        "text": "Static analysis: clip is bounded on every conditional leaf (guard-implies-bound; complete for bounding "
                "and idempotence); one output per input (typestate) and no StopIteration escape for zcross/unwrap/"
                "maverage.deque/accumulate.func; zcross and unwrap decision conditions in linear normal form; "
                "maverage.deque inductive step; recursive = fir as rational functions for sizes 1..16 (bounded); "
                "accumulate.z; envelope/amdf compositions. Strategy equivalence on signals is not decided.",
        "note": NOTE,
        "technique": "guard-implies-bound on conditional leaves, pull/yield typestate, normal-form comparison of conditions",
    },
    "C02": {
        "text": "Static analysis over a frozen stage table (70 stages): taint of source handles shows no pull effect at "
                "construction time in any non-generator stage (R2.1; tostream is exactly Stream(func(...))); abstract "
                "interpretation of the pull/yield typestate shows one output per input on every path of each "
                "sample-wise generator stage (R2.2) and for-header-only pulls with at most one yield per pull in block "
                "stages (R2.3). Holds for every input and length. Does not decide the (j-1)*hop+size read count.",
        "note": NOTE,
        "technique": "taint/effect analysis + pull/yield typestate abstract interpretation",
    },
    "C04": {
        "text": "Static analysis of the code generator LinearFilter.__call__: its string-building slice is constant-folded "
                "over abstract coefficient tokens to reconstruct the exec'd generator for ~800 schemas (exhaustive over "
                "coefficient classes up to order 2 in the thorough tier); each generated function is parsed and one "
                "inductive step of the difference equation, the state shift, memory order, zero init, single yield and "
                "the zero filter are proved in rational normal form with symbolic samples; plus causality guard first, "
                "memory normalisation and exec wiring. Bounded over filter shapes, unbounded over inputs.",
        "note": NOTE,
        "technique": "constant folding of the kernel builder + rational-normal-form check of the generated AST; coefficient classes completed by the literals the builder compares with; decision tables for constructor and memory arguments",
    },
    "C05": {
        "text": "Static analysis: __ne__ is the De Morgan complement of __eq__ for LinearFilter/FilterList/Poly/"
                "TableLookup; __hash__ reads only what __eq__ compares; every return path of the ZFilter operators and "
                "of the reflected/unary templates equals the rational-function identity in Q(A,B,C,D,c) (normal forms, "
                "no solver); substitution f(g); cascade = product / parallel = sum with numerator and denominator "
                "projected from one fraction; linearize weights. Does not decide outputs on signals.",
        "note": NOTE,
        "technique": "boolean-skeleton duality + rational normal forms over loop-free paths; decision tables over operand kinds, exponent sign and term counts",
    },
    "C06": {
        "text": "Static analysis: generated kernels with Stream coefficients advance each iterator exactly once per "
                "sample, satisfy the time-varying difference equation in normal form and protect next() (PEP 479); "
                "variable-a0 arm is a rational identity with one copied gain; linear-use accounting (carriers with "
                "copy-before-use, no aliasing replication, thub budgets of Poly with symbolic multiplicities); "
                "avoid_stream coverage. Does not compute sample values.",
        "note": NOTE,
        "technique": "template-frame reconstruction + tee/linear-use accounting over symbolic sizes",
    },
    "C03": {
        "text": "Static analysis (obligations discharged on the current source): no StopIteration escape from "
                "take/limit/skip generator frames; take arms; peek consumes only a copy; tee discipline of copy; hub "
                "tees n, pops one per use, IndexError on exhaustion, overrides every _data-touching method; in-place "
                "methods shape; thub identity on non-iterables. Does not decide list-model equivalence over histories.",
        "note": NOTE,
        "technique": "AST rules: PEP-479 escape analysis, tee-discipline and override-set checks; decision tables over representative counts / argument kinds (guards folded, not read)",
    },
}

NOT_APPLICABLE = {}
