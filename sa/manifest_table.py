"""Single source for MANIFEST.json (tools/gen_manifest.py)."""
NOTE = ("Trusted: CPython's ast; the documented semantics of map/zip/itertools/operator, PEP 479 and operator "
        "precedence; the checker's own normaliser (sa/ratfun.py) and the fact tables printed in the evidence. "
        "Decides only the structural clauses named in the level text; sample values are not computed.")

ENGINES = [
    {"name": "sa", "path": "/verif/sa", "serves_properties": ["C%02d" % i for i in range(1, 21)],
     "kind_free_text": "repository-specific static analysis over Python ast: StopIteration-escape (PEP 479), "
                       "tee/linear-use accounting, pull/yield typestate, template-frame reconstruction of exec'd code, "
                       "rational normal forms, sibling/consistency rules, lock-order and wake-up analysis"},
]

CHECKS = {
    "C03": {
        "text": "Static analysis (obligations discharged on the current source): no StopIteration escape from "
                "take/limit/skip generator frames; take arms; peek consumes only a copy; tee discipline of copy; hub "
                "tees n, pops one per use, IndexError on exhaustion, overrides every _data-touching method; in-place "
                "methods shape; thub identity on non-iterables. Does not decide list-model equivalence over histories.",
        "note": NOTE,
        "technique": "AST rules: PEP-479 escape analysis, tee-discipline and override-set checks",
    },
}

_PENDING = "check under construction in this session; not claimed until its rules are armed and validated"
NOT_APPLICABLE = {("C%02d" % i): _PENDING for i in range(1, 21) if ("C%02d" % i) not in CHECKS}
