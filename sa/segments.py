"""Segment summaries of simple generator functions.

A generator whose body is a sequence of assignments, ``if`` splits and loops
that each contain one ``yield`` is summarised, per path, as a list of
segments: ``range`` (count expression, loop variable, yielded expression),
``source`` (iterated expression, loop target, yielded expression), ``forever``
(yielded expression) and ``single``.  Counts and values are kept as AST and,
when interpretable, as RF normal forms.
"""
import ast

from .core import docstring_free, unparse
from .ratfun import RF, Evaluator, Inconclusive


class NotSimple(Exception):
    pass


def int_hook(ev, name, node):
    """int(x) / rint(x) as opaque rounding of the normal form of x"""
    if name in ("int", "rint") and len(node.args) == 1 and not node.keywords:
        from .ratfun import opaque
        return opaque(name, ev.ev(node.args[0]))
    return None


class Segment(object):
    def __init__(self, kind, node, count=None, var=None, value=None, source=None, env=None):
        self.kind, self.node, self.count, self.var, self.value, self.source = kind, node, count, var, value, source
        self.env = dict(env or {})

    def count_rf(self, call_hook=None):
        return Evaluator(self.env, call_hook=call_hook or int_hook).ev(self.count)

    def value_rf(self, call_hook=None, attr_hook=None):
        return Evaluator(self.env, call_hook=call_hook, attr_hook=attr_hook).ev(self.value)

    def __repr__(self):
        if self.kind == "range":
            return "%s x [%s for %s]" % (unparse(self.count), unparse(self.value), self.var)
        if self.kind == "source":
            return "[%s for %s in %s]" % (unparse(self.value), self.var, unparse(self.source))
        if self.kind == "forever":
            return "[%s forever]" % unparse(self.value)
        return "[%s]" % unparse(self.value)


def _single_yield(body):
    if len(body) == 1 and isinstance(body[0], ast.Expr) and isinstance(body[0].value, ast.Yield) \
            and body[0].value.value is not None:
        return body[0].value.value
    return None


def summarise(func, call_hook=None, opaque_ok=True, limit=64, ifexp_hook=None):
    """Returns list of (conditions, segments) per path; raises NotSimple."""
    paths = []

    def assign(env, st):
        env = dict(env)
        if isinstance(st, ast.Assign) and len(st.targets) == 1 and isinstance(st.targets[0], ast.Name):
            try:
                env[st.targets[0].id] = Evaluator(env, call_hook=call_hook, ifexp_hook=ifexp_hook).ev(st.value)
            except Inconclusive:
                if not opaque_ok:
                    raise NotSimple("assignment %s" % unparse(st))
                env[st.targets[0].id] = RF.sym("<%s>" % unparse(st.value))
            return env
        raise NotSimple("statement %s" % unparse(st))

    def walk(stmts, env, conds, segs):
        if len(paths) > limit:
            raise NotSimple("too many paths")
        if not stmts:
            paths.append((conds, segs))
            return
        st, rest = stmts[0], stmts[1:]
        if isinstance(st, ast.Assign):
            walk(rest, assign(env, st), conds, segs)
        elif isinstance(st, ast.If):
            walk(list(st.body) + rest, env, conds + [(st.test, True)], list(segs))
            walk(list(st.orelse) + rest, env, conds + [(st.test, False)], list(segs))
        elif isinstance(st, ast.For):
            y = _single_yield(st.body)
            if y is None or st.orelse:
                raise NotSimple("loop body is not a single yield: %s" % unparse(st)[:60])
            it = st.iter
            if isinstance(it, ast.Call) and unparse(it.func) in ("xrange", "range") and len(it.args) == 1 \
                    and isinstance(st.target, ast.Name):
                seg = Segment("range", st, count=it.args[0], var=st.target.id, value=y, env=env)
            else:
                seg = Segment("source", st, var=unparse(st.target), value=y, source=it, env=env)
            walk(rest, env, conds, segs + [seg])
        elif isinstance(st, ast.While) and isinstance(st.test, ast.Constant) and st.test.value is True:
            y = _single_yield(st.body)
            if y is None:
                raise NotSimple("while True body is not a single yield")
            paths.append((conds, segs + [Segment("forever", st, value=y, env=env)]))
        elif isinstance(st, ast.Expr) and isinstance(st.value, ast.Yield) and st.value.value is not None:
            walk(rest, env, conds, segs + [Segment("single", st, value=st.value.value, env=env)])
        elif isinstance(st, ast.Expr) and isinstance(st.value, ast.Constant):
            walk(rest, env, conds, segs)
        elif isinstance(st, ast.Return) and st.value is None:
            paths.append((conds, segs))
        else:
            raise NotSimple("statement kind %s: %s" % (type(st).__name__, unparse(st)[:60]))

    walk(docstring_free(func.body), {}, [], [])
    return paths
