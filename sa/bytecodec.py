"""E15  abstract interpretation of sample decoders (struct / shifts / manual two's complement).

A decoder is applied to an abstract byte string ``b0 b1 .. b(n-1)`` (n = sample width).  Integers are kept as exact
linear forms over the unknown bytes, either unsigned (``U = c0 + sum c_i * b_i``), or with one sign correction
``U - M * [U >= T]``.  ``struct`` formats are read with the struct module's own table of sizes (reflection on the
standard library, the repository is not executed).  The verdict is whether the result equals the little-endian two's
complement value of the n bytes for *every* byte string - decided on the normal form, not by trying values.
"""
import ast
import struct as _struct

from .core import FuncTypes, docstring_free, unparse, canon_call


class Undecided(Exception):
    pass


class Bytes(object):
    def __init__(self, items):
        self.items = list(items)        # ("in", i) | ("const", int)

    def __add__(self, other):
        return Bytes(self.items + other.items)


class Int(object):
    """c0 + sum coef[i]*b_i  -  M * [that >= T]      (M == 0: plain)"""
    def __init__(self, coef=None, c0=0, M=0, T=0):
        self.coef = dict(coef or {})
        self.c0 = c0
        self.M = M
        self.T = T

    def plain(self):
        return self.M == 0

    def rng(self):
        lo = self.c0 + sum(min(0, c * 255) for c in self.coef.values())
        hi = self.c0 + sum(max(0, c * 255) for c in self.coef.values())
        return lo, hi

    def key(self):
        return (tuple(sorted(self.coef.items())), self.c0, self.M, self.T)

    def describe(self):
        terms = ["%#x*b%d" % (c, i) if c != 1 else "b%d" % i for i, c in sorted(self.coef.items())]
        if self.c0:
            terms.append("%#x" % self.c0)
        u = " + ".join(terms) or "0"
        if self.M:
            return "U - %#x*[U >= %#x] with U = %s" % (self.M, self.T, u)
        return u


def signed_target(n):
    """two's complement value of n little-endian bytes"""
    return Int({i: 256 ** i for i in range(n)}, 0, 1 << (8 * n), 1 << (8 * n - 1))


def unsigned_target(n):
    return Int({i: 256 ** i for i in range(n)})


def _field(items, signed, little):
    coef, c0 = {}, 0
    seq = items if little else list(reversed(items))
    for k, it in enumerate(seq):
        w = 256 ** k
        if it[0] == "in":
            coef[it[1]] = coef.get(it[1], 0) + w
        else:
            c0 += it[1] * w
    n = len(items)
    if signed:
        return Int(coef, c0, 1 << (8 * n), 1 << (8 * n - 1))
    return Int(coef, c0)


SIGNED = {"b": 1, "h": 2, "i": 4, "l": 4, "q": 8}
UNSIGNED = {"B": 1, "H": 2, "I": 4, "L": 4, "Q": 8}


def struct_unpack(fmt, data):
    if not isinstance(data, Bytes):
        raise Undecided("unpack of a non-byte value")
    if not fmt or fmt[0] not in "<>!":
        raise Undecided("format %r has no explicit byte order: native order and alignment depend on the machine" % fmt)
    little = fmt[0] == "<"
    if _struct.calcsize(fmt) != len(data.items):
        raise WrongSize("Struct(%r) needs %d bytes, the decoder hands it %d" % (fmt, _struct.calcsize(fmt), len(data.items)))
    out = []
    pos = 0
    for ch in fmt[1:]:
        if ch in SIGNED or ch in UNSIGNED:
            n = SIGNED.get(ch) or UNSIGNED.get(ch)
            out.append(_field(data.items[pos:pos + n], ch in SIGNED, little))
            pos += n
        else:
            raise Undecided("format character %r" % ch)
    return tuple(out)


class WrongSize(Exception):
    pass


class Closure(object):
    def __init__(self, node, env):
        self.node, self.env = node, env


class UnpackOf(object):
    def __init__(self, fmt):
        self.fmt = fmt


class Interp(object):
    def __init__(self, repo, modname):
        self.repo = repo
        self.mod = repo.mod(modname)
        self.modname = modname

    # -- expressions
    def ev(self, e, env):
        if isinstance(e, ast.Constant):
            if isinstance(e.value, bytes):
                return Bytes([("const", b) for b in e.value])
            if type(e.value) is int:
                return Int(c0=e.value)
            if isinstance(e.value, str):
                return StrVal(e.value)
            raise Undecided("constant %r" % (e.value,))
        if isinstance(e, ast.Name):
            if e.id in env:
                return env[e.id]
            if e.id == "ord":
                return "ord"
            fn = self.repo.find(self.modname, e.id, required=False)
            if fn is not None and isinstance(fn, FuncTypes):
                return Closure(fn, {})
            # a module-level name bound once (``_unpack_int16 = Struct("<h").unpack``): its defining expression
            binds = [st for st in self.mod.tree.body if isinstance(st, ast.Assign) and any(
                isinstance(t, ast.Name) and t.id == e.id for t in st.targets)]
            stores = sum(1 for n in ast.walk(self.mod.tree) if isinstance(n, ast.Name) and n.id == e.id
                         and isinstance(n.ctx, (ast.Store, ast.Del)))
            if len(binds) == 1 and stores == 1 and getattr(self, "_depth", 0) < 5:
                self._depth = getattr(self, "_depth", 0) + 1
                try:
                    return self.ev(binds[0].value, {})
                finally:
                    self._depth -= 1
            raise Undecided("name %s" % e.id)
        if isinstance(e, ast.Lambda):
            return Closure(e, dict(env))
        if isinstance(e, ast.Attribute):
            if e.attr == "unpack":
                base = e.value
                if isinstance(base, ast.Call) and canon_call(self.mod, base) in ("struct.Struct",) and len(base.args) == 1 \
                        and isinstance(base.args[0], ast.Constant):
                    return UnpackOf(base.args[0].value)
                b = self.ev(base, env)
                if isinstance(b, StructObj):
                    return UnpackOf(b.fmt)
            raise Undecided("attribute %s" % unparse(e))
        if isinstance(e, ast.Call):
            if canon_call(self.mod, e) in ("struct.Struct",) and len(e.args) == 1:
                f = self.ev_const_str(e.args[0], env)
                return StructObj(f)
            if canon_call(self.mod, e) in ("struct.unpack",) and len(e.args) == 2:
                return struct_unpack(self.ev_const_str(e.args[0], env), self.ev(e.args[1], env))
            if isinstance(e.func, ast.Attribute) and e.func.attr == "unpack":
                u = self.ev(e.func, env)
                return struct_unpack(u.fmt, self.ev(e.args[0], env))
            if isinstance(e.func, ast.Attribute) and e.func.attr == "unpack":
                pass
            f = self.ev(e.func, env)
            args = [self.ev(a, env) for a in e.args]
            if e.keywords:
                raise Undecided("keyword call")
            return self.apply(f, args)
        if isinstance(e, ast.Subscript):
            v = self.ev(e.value, env)
            if isinstance(v, tuple) and isinstance(e.slice, ast.Constant) and type(e.slice.value) is int:
                return v[e.slice.value]
            if isinstance(v, Bytes) and isinstance(e.slice, ast.Constant) and type(e.slice.value) is int:
                it = v.items[e.slice.value]
                return Int({it[1]: 1}) if it[0] == "in" else Int(c0=it[1])
            raise Undecided("subscript %s" % unparse(e))
        if isinstance(e, ast.BinOp):
            l, r = self.ev(e.left, env), self.ev(e.right, env)
            return self.binop(e.op, l, r, e)
        if isinstance(e, ast.IfExp):
            return self.ifexp(e, env)
        if isinstance(e, ast.Tuple):
            return tuple(self.ev(x, env) for x in e.elts)
        raise Undecided("expression %s" % unparse(e)[:60])

    def ev_const_str(self, e, env):
        if isinstance(e, ast.Constant) and isinstance(e.value, str):
            return e.value
        if isinstance(e, ast.Name) and isinstance(env.get(e.id), StrVal):
            return env[e.id].s
        if isinstance(e, ast.BinOp) and isinstance(e.op, ast.Add):
            return self.ev_const_str(e.left, env) + self.ev_const_str(e.right, env)
        raise Undecided("format %s is not a literal" % unparse(e))

    def binop(self, op, l, r, node):
        if isinstance(l, Bytes) and isinstance(r, Bytes) and isinstance(op, ast.Add):
            return l + r
        # a byte string repeated a known number of times
        if isinstance(op, ast.Mult):
            for b_, n_ in ((l, r), (r, l)):
                if isinstance(b_, Bytes) and isinstance(n_, Int) and not n_.coef and n_.plain():
                    return Bytes(list(b_.items) * max(n_.c0, 0))
        if not (isinstance(l, Int) and isinstance(r, Int)):
            raise Undecided("operator on %s" % unparse(node)[:60])
        # two known numbers: plain integer arithmetic
        if not l.coef and l.plain() and not r.coef and r.plain():
            import operator as _o
            fn = {ast.Add: _o.add, ast.Sub: _o.sub, ast.Mult: _o.mul, ast.FloorDiv: _o.floordiv, ast.Mod: _o.mod,
                  ast.LShift: _o.lshift, ast.RShift: _o.rshift, ast.BitAnd: _o.and_, ast.BitOr: _o.or_, ast.BitXor: _o.xor,
                  ast.Pow: _o.pow}.get(type(op))
            if fn is not None:
                try:
                    return Int(c0=fn(l.c0, r.c0))
                except (ZeroDivisionError, ValueError, OverflowError):
                    raise Undecided("arithmetic error in %s" % unparse(node)[:60])
        rc = r.c0 if not r.coef and r.plain() else None
        if isinstance(op, ast.RShift) and rc is not None:
            k = rc
            if all(c % (1 << k) == 0 for c in l.coef.values()) and l.c0 % (1 << k) == 0 and l.M % (1 << k) == 0 \
                    and l.T % (1 << k) == 0:
                return Int({i: c >> k for i, c in l.coef.items()}, l.c0 >> k, l.M >> k, l.T >> k)
            raise Undecided(">> %d drops bits that depend on the input" % k)
        if isinstance(op, ast.LShift) and rc is not None and l.plain():
            return Int({i: c << rc for i, c in l.coef.items()}, l.c0 << rc)
        if isinstance(op, ast.Mult) and rc is not None and l.plain():
            return Int({i: c * rc for i, c in l.coef.items()}, l.c0 * rc)
        if isinstance(op, ast.Mult) and l.plain() and not l.coef and r.plain():
            return Int({i: c * l.c0 for i, c in r.coef.items()}, r.c0 * l.c0)
        if isinstance(op, (ast.BitOr, ast.Add, ast.BitXor)) and l.plain() and r.plain():
            if not isinstance(op, ast.Add):
                # disjoint bit ranges: or == xor == add
                def support(v):
                    s = 0
                    for c in list(v.coef.values()) + ([v.c0] if v.c0 else []):
                        if c <= 0:
                            raise Undecided("bit operation on a negative term")
                        lowbit = (c & -c)
                        if v.coef and c in v.coef.values():
                            span = c // lowbit
                            if span != 1:
                                raise Undecided("bit operation on a non power-of-two weight")
                            s |= (0xFF * lowbit)
                        else:
                            s |= c
                    return s
                if support(l) & support(r):
                    raise Undecided("bit ranges overlap in %s" % unparse(node)[:60])
            coef = dict(l.coef)
            for i, c in r.coef.items():
                coef[i] = coef.get(i, 0) + c
            return Int(coef, l.c0 + r.c0)
        if isinstance(op, ast.Add) and rc is not None:
            return Int(l.coef, l.c0 + rc, l.M, l.T + rc if l.M else 0)
        if isinstance(op, ast.Sub) and rc is not None:
            return Int(l.coef, l.c0 - rc, l.M, l.T - rc if l.M else 0)
        if isinstance(op, ast.BitAnd) and rc is not None and l.plain():
            # mask keeping whole bytes
            coef = {}
            for i, c in l.coef.items():
                lowbit = c & -c
                if c != lowbit:
                    raise Undecided("mask on a non power-of-two weight")
                if (0xFF * lowbit) & rc == 0xFF * lowbit:
                    coef[i] = c
                elif (0xFF * lowbit) & rc == 0:
                    continue
                else:
                    raise Undecided("mask %#x splits a byte" % rc)
            return Int(coef, l.c0 & rc)
        raise Undecided("operator in %s" % unparse(node)[:60])

    def ifexp(self, e, env):
        t = e.test
        if not (isinstance(t, ast.Compare) and len(t.ops) == 1):
            raise Undecided("condition %s" % unparse(t))
        a, b = self.ev(t.left, env), self.ev(t.comparators[0], env)
        op = t.ops[0]
        if isinstance(a, Int) and not a.coef and a.plain() and isinstance(b, Int):
            # constant on the left: mirror
            a, b = b, a
            op = {ast.Lt: ast.Gt, ast.LtE: ast.GtE, ast.Gt: ast.Lt, ast.GtE: ast.LtE}.get(type(op), type(op))()
        if not (isinstance(a, Int) and a.plain() and isinstance(b, Int) and not b.coef and b.plain()):
            raise Undecided("condition %s" % unparse(t))
        x, y = self.ev(e.body, env), self.ev(e.orelse, env)
        thr = b.c0
        if isinstance(op, (ast.Gt, ast.GtE)):
            T = thr + (1 if isinstance(op, ast.Gt) else 0)
            hi, lo = x, y
        elif isinstance(op, (ast.Lt, ast.LtE)):
            T = thr + (0 if isinstance(op, ast.Lt) else 1)
            hi, lo = y, x
        else:
            raise Undecided("condition %s" % unparse(t))
        # lo must be the tested value itself, hi the tested value minus a constant
        if not (isinstance(lo, Int) and lo.key() == a.key() and isinstance(hi, Int) and hi.plain()
                and hi.coef == a.coef):
            raise Undecided("conditional %s is not a sign correction of the tested value" % unparse(e)[:70])
        return Int(a.coef, a.c0, a.c0 - hi.c0, T)

    # -- calls
    def apply(self, f, args):
        if f == "ord":
            v = args[0]
            if isinstance(v, Bytes) and len(v.items) == 1:
                it = v.items[0]
                return Int({it[1]: 1}) if it[0] == "in" else Int(c0=it[1])
            raise Undecided("ord of %d bytes" % (len(v.items) if isinstance(v, Bytes) else -1))
        if isinstance(f, UnpackOf):
            return struct_unpack(f.fmt, args[0])
        if isinstance(f, Closure):
            node = f.node
            a = node.args
            params = [x.arg for x in a.args]
            env = dict(f.env)
            defaults = a.defaults
            for p, d in zip(params[len(params) - len(defaults):], defaults):
                env[p] = self.ev(d, f.env)
            if len(args) > len(params):
                raise Undecided("too many arguments")
            for p, v in zip(params, args):
                env[p] = v
            if any(p not in env for p in params):
                raise Undecided("missing argument")
            if isinstance(node, ast.Lambda):
                return self.ev(node.body, env)
            return self.run(docstring_free(node.body), env)
        raise Undecided("call of %r" % (f,))

    def _known_test(self, t, env):
        """truth of a comparison between two known numbers, else None"""
        if not (isinstance(t, ast.Compare) and len(t.ops) == 1):
            return None
        try:
            a, b = self.ev(t.left, env), self.ev(t.comparators[0], env)
        except Undecided:
            return None
        if not (isinstance(a, Int) and isinstance(b, Int) and not a.coef and not b.coef and a.plain() and b.plain()):
            return None
        import operator as _o
        fn = {ast.Eq: _o.eq, ast.NotEq: _o.ne, ast.Lt: _o.lt, ast.LtE: _o.le, ast.Gt: _o.gt, ast.GtE: _o.ge}.get(type(t.ops[0]))
        return None if fn is None else fn(a.c0, b.c0)

    def run(self, stmts, env):
        for st in stmts:
            if isinstance(st, ast.Assign) and len(st.targets) == 1:
                v = self.ev(st.value, env) if not isinstance(st.value, ast.Constant) or not isinstance(st.value.value, str) \
                    else StrVal(st.value.value)
                t = st.targets[0]
                if isinstance(t, ast.Name):
                    env[t.id] = v
                elif isinstance(t, (ast.Tuple, ast.List)) and isinstance(v, tuple) and len(v) == len(t.elts) \
                        and all(isinstance(x, ast.Name) for x in t.elts):
                    for x, y in zip(t.elts, v):
                        env[x.id] = y
                else:
                    raise Undecided("assignment %s" % unparse(st)[:60])
            elif isinstance(st, ast.Return):
                return self.ev(st.value, env)
            elif isinstance(st, FuncTypes):
                env[st.name] = Closure(st, env)
            elif isinstance(st, ast.If) and self._known_test(st.test, env) is not None:
                # a test on known numbers (``if bits == 8``): the branch taken, then the rest
                taken = st.body if self._known_test(st.test, env) else st.orelse
                return self.run(list(taken) + list(stmts[stmts.index(st) + 1:]), env)
            elif isinstance(st, ast.If) and isinstance(st.test, ast.Compare) and len(st.body) == 1 \
                    and isinstance(st.body[0], (ast.Return, ast.Assign)):
                # if value OP T: return value - M  /  value -= M ... ; handled as a conditional expression
                nxt = stmts[stmts.index(st) + 1:] if not st.orelse else st.orelse
                if isinstance(st.body[0], ast.Return) and len(nxt) == 1 and isinstance(nxt[0], ast.Return):
                    return self.ifexp(ast.IfExp(test=st.test, body=st.body[0].value, orelse=nxt[0].value), env)
                if isinstance(st.body[0], ast.Assign) and not st.orelse and isinstance(st.body[0].targets[0], ast.Name):
                    nm = st.body[0].targets[0].id
                    env[nm] = self.ifexp(ast.IfExp(test=st.test, body=st.body[0].value, orelse=ast.Name(id=nm, ctx=ast.Load())), env)
                    continue
                raise Undecided("statement %s" % unparse(st)[:60])
            elif isinstance(st, ast.AugAssign) and isinstance(st.target, ast.Name):
                env[st.target.id] = self.binop(st.op, env[st.target.id], self.ev(st.value, env), st)
            else:
                raise Undecided("statement %s" % unparse(st)[:60])
        raise Undecided("decoder returns nothing")


class StructObj(object):
    def __init__(self, fmt):
        self.fmt = fmt


class StrVal(object):
    def __init__(self, s):
        self.s = s


def decode(repo, modname, expr, nbytes, env=None):
    """abstract result of applying the decoder expression to nbytes unknown bytes"""
    it = Interp(repo, modname)
    f = it.ev(expr, dict(env or {}))
    return it.apply(f, [Bytes([("in", i) for i in range(nbytes)])])
