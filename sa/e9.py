"""E9  symbolic index ranges.

Loop / comprehension variables get [lo, hi] from range() with linear symbolic
bounds (inner bounds may mention outer variables).  A subscript's linear form
is bounded by substituting each variable's extreme according to the sign of
its (numeric) coefficient, innermost first.
"""
import ast

from .core import unparse
from .ratfun import RF, Evaluator, Inconclusive


def len_hook(ev, name, node):
    if name == "len" and len(node.args) == 1:
        return RF.sym("len(%s)" % unparse(node.args[0]))
    return None


def size_aliases(fn):
    """locals that are, for the whole function, just the length of a sequence: ``n = len(x)`` assigned once, x never
    re-bound - read as len(x)"""
    out = {}
    if fn is None or not hasattr(fn, "body"):
        return out
    stores = {}
    for n in ast.walk(fn):
        if isinstance(n, ast.Name) and isinstance(n.ctx, (ast.Store, ast.Del)):
            stores[n.id] = stores.get(n.id, 0) + 1
    for n in ast.walk(fn):
        if isinstance(n, ast.Assign) and len(n.targets) == 1 and isinstance(n.targets[0], ast.Name) \
                and isinstance(n.value, ast.Call) and unparse(n.value.func) == "len" and len(n.value.args) == 1 \
                and isinstance(n.value.args[0], ast.Name) and stores.get(n.targets[0].id) == 1 \
                and stores.get(n.value.args[0].id, 0) == 0:
            out[n.targets[0].id] = RF.sym("len(%s)" % n.value.args[0].id)
    return out


def range_bounds(call, env=None):
    """(lo, hi) inclusive RF bounds of range(...) with step 1, or None."""
    if not (isinstance(call, ast.Call) and unparse(call.func) in ("range", "xrange")):
        return None
    ev = Evaluator(env or {}, call_hook=len_hook)
    a = [ev.ev(x) for x in call.args]
    if len(a) == 1:
        return RF.const(0), a[0] - 1
    if len(a) == 2:
        return a[0], a[1] - 1
    return None


def enclosing_ranges(node, stop, env=None):
    """[(var, lo, hi)] from the innermost enclosing comprehension/for outwards (inner first)."""
    out = []
    if env is None:
        env = size_aliases(stop)
    cur = node
    p = getattr(cur, "_parent", None)
    while p is not None and cur is not stop:
        if isinstance(p, (ast.ListComp, ast.GeneratorExp, ast.SetComp)):
            # all generators of this comprehension bind variables visible in elt; inner-most = last
            for g in reversed(p.generators):
                if cur is g.iter:
                    continue
                b = range_bounds(g.iter, env)
                if b is not None and isinstance(g.target, ast.Name):
                    out.append((g.target.id, b[0], b[1]))
                elif isinstance(g.iter, ast.Call) and unparse(g.iter.func) == "enumerate" and isinstance(g.target, ast.Tuple):
                    seq = unparse(g.iter.args[0])
                    out.append((unparse(g.target.elts[0]), RF.const(0), RF.sym("len(%s)" % seq) - 1))
        elif isinstance(p, ast.For) and cur in p.body:
            b = range_bounds(p.iter, env)
            if b is not None and isinstance(p.target, ast.Name):
                out.append((p.target.id, b[0], b[1]))
        cur, p = p, getattr(p, "_parent", None)
    return out


def extreme(expr, ranges, want_max):
    """Substitute extremes innermost first.  Raises Inconclusive if a coefficient is not a numeric constant."""
    cur = expr
    for var, lo, hi in ranges:
        if var not in cur.symbols():
            continue
        cp = cur.coeff_poly(var)
        if not set(cp) <= {0, 1}:
            raise Inconclusive("index is not linear in %s" % var)
        c = cp.get(1, RF.const(0)).as_fraction()
        pick = hi if (c > 0) == want_max else lo
        cur = cur.subst({var: pick})
    return cur


def bound_subscript(sub, stop, env=None):
    """(min, max) RF of a subscript index (handles abs(a - b) as max of both differences)."""
    idx = sub.slice
    if env is None:
        env = size_aliases(stop)
    ranges = enclosing_ranges(sub, stop, env)
    ev = Evaluator(env or {}, call_hook=len_hook)
    if isinstance(idx, ast.Call) and unparse(idx.func) == "abs" and len(idx.args) == 1:
        inner = ev.ev(idx.args[0])
        hi1 = extreme(inner, ranges, True)
        hi2 = extreme(-inner, ranges, True)
        return RF.const(0), (hi1, hi2), ranges
    e = ev.ev(idx)
    return extreme(e, ranges, False), extreme(e, ranges, True), ranges
