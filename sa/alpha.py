"""Reference-guided alpha-normalisation of local names.

The rules of the checker identify variables by the names they have on the tree
on which every rule instance was confirmed by hand (the snapshot under
/verif/reference).  A behaviour-preserving rename of a local variable, a
comprehension variable, a lambda parameter or a nested helper function must
not change any verdict, so before a function is analysed its bound names are
mapped back to the reference names:

  * current and reference function are aligned statement by statement
    (difflib on name-blind skeletons), aligned statements are walked in
    parallel and every position holding a bound name votes for a pair
    (current name -> reference name);
  * the majority mapping (made injective) is applied in place to the current
    AST (line numbers are untouched).

Only names are ever changed - never structure - and only when the surrounding
statement has exactly the reference shape; code that changed keeps the mapping
learnt from the statements that did not.  Parameters of the outermost
(anchored) function, attributes and module-level names are never renamed.
The snapshot is used for this purpose only; it is never a textual oracle.
"""
import ast
import difflib
import os
import warnings

from .core import FuncTypes


def _params(fn):
    a = fn.args
    out = {x.arg for x in a.posonlyargs + a.args + a.kwonlyargs}
    if a.vararg:
        out.add(a.vararg.arg)
    if a.kwarg:
        out.add(a.kwarg.arg)
    return out


def bound_names(fn):
    """Names bound anywhere inside fn (nested scopes included), except the parameters of fn itself and names declared
    global/nonlocal."""
    out = set()
    declared = set()
    for n in ast.walk(fn):
        if n is fn:
            continue
        if isinstance(n, ast.Name) and isinstance(n.ctx, (ast.Store, ast.Del)):
            out.add(n.id)
        elif isinstance(n, FuncTypes):
            out.add(n.name)
            out |= _params(n)
        elif isinstance(n, ast.Lambda):
            out |= _params(n)
        elif isinstance(n, ast.ExceptHandler) and n.name:
            out.add(n.name)
        elif isinstance(n, (ast.Global, ast.Nonlocal)):
            declared |= set(n.names)
        elif isinstance(n, ast.alias):
            out.add(n.asname or n.name.split(".")[0])
        elif isinstance(n, ast.ClassDef):
            out.add(n.name)
    return (out - _params(fn)) - declared


_SKEL = {}


def skeleton(node):
    """Name-blind structural dump (memoised per node)."""
    k = id(node)
    r = _SKEL.get(k)
    if r is not None and r[0] is node:
        return r[1]
    if isinstance(node, ast.Name):
        out = "N"
    elif isinstance(node, ast.arg):
        out = "a"
    elif isinstance(node, ast.AST):
        parts = [type(node).__name__]
        for fld in node._fields:
            if fld in ("ctx", "type_comment", "kind"):
                continue
            v = getattr(node, fld, None)
            if fld == "name" and isinstance(node, FuncTypes + (ast.ExceptHandler, ast.ClassDef)):
                parts.append("_")
            elif isinstance(v, list):
                parts.append("[" + ",".join(skeleton(x) if isinstance(x, ast.AST) else repr(x) for x in v) + "]")
            elif isinstance(v, ast.AST):
                parts.append(skeleton(v))
            else:
                parts.append(repr(v))
        out = "(" + " ".join(parts) + ")"
    else:
        out = repr(node)
    _SKEL[k] = (node, out)
    return out


def head_skeleton(st):
    """Skeleton of a compound statement's head only (so that a changed body does not prevent alignment)."""
    if isinstance(st, (ast.If, ast.While)):
        return type(st).__name__ + ":" + skeleton(st.test)
    if isinstance(st, ast.For):
        return "For:" + skeleton(st.target) + skeleton(st.iter)
    if isinstance(st, ast.With):
        return "With:" + "".join(skeleton(i.context_expr) for i in st.items)
    if isinstance(st, ast.Try):
        return "Try"
    if isinstance(st, FuncTypes):
        return "Def:%d" % len(st.args.args)
    if isinstance(st, ast.ClassDef):
        return "Class"
    return skeleton(st)


class Votes(object):
    def __init__(self, bound_cur, bound_ref):
        self.bc, self.br = bound_cur, bound_ref
        self.v = {}

    def add(self, cur, ref):
        if cur in self.bc and ref in self.br:
            d = self.v.setdefault(cur, {})
            d[ref] = d.get(ref, 0) + 1

    def mapping(self, cooccur=None, solo=None, occ=None):
        """Best reference name per current name.  Two current names may share one reference name only when they
        never occur together in one top-level statement (e.g. a comprehension variable and a loop variable that the
        reference spells alike); otherwise the higher vote wins."""
        cand = []
        for cur, d in self.v.items():
            ref, cnt = max(d.items(), key=lambda kv: (kv[1], kv[0] == cur))
            if ref != cur and cur in self.br and (2 * d.get(cur, 0) >= cnt or cnt < 3):
                # a name the reference binds too, and that lines up with itself in a fair share of its occurrences,
                # is that variable: it is not renamed onto another one that merely stands where it stood once
                ref, cnt = cur, d.get(cur, 0)
            cand.append((cnt, cur, ref))
        cand.sort(reverse=True)
        taken, out = {}, {}
        for cnt, cur, ref in cand:
            holders = taken.get(ref, [])
            if holders and (cooccur is None or any(cooccur(cur, h) for h in holders)):
                continue
            if holders and solo is not None and (cur in solo or any(h in solo for h in holders)):
                continue        # a variable that is assigned keeps a name of its own: both may be live at once
            taken.setdefault(ref, []).append(cur)
            out[cur] = ref
        return out


def unify(cur, ref, votes):
    """Parallel walk of two nodes of the same type."""
    if type(cur) is not type(ref):
        return
    if isinstance(cur, ast.Name):
        votes.add(cur.id, ref.id)
        return
    if isinstance(cur, ast.arg):
        votes.add(cur.arg, ref.arg)
        return
    if isinstance(cur, FuncTypes):
        votes.add(cur.name, ref.name)
    if isinstance(cur, ast.ExceptHandler) and cur.name and ref.name:
        votes.add(cur.name, ref.name)
    if isinstance(cur, ast.alias):
        votes.add(cur.asname or cur.name, ref.asname or ref.name)
    for fld in cur._fields:
        a, b = getattr(cur, fld, None), getattr(ref, fld, None)
        if isinstance(a, list) and isinstance(b, list):
            if a and isinstance(a[0], ast.stmt) or b and isinstance(b[0], ast.stmt):
                align_blocks(a, b, votes)
            elif len(a) == len(b):
                for x, y in zip(a, b):
                    if isinstance(x, ast.AST) and isinstance(y, ast.AST):
                        unify(x, y, votes)
        elif isinstance(a, ast.AST) and isinstance(b, ast.AST):
            unify(a, b, votes)


def align_blocks(cur, ref, votes):
    ks_c = [head_skeleton(s) for s in cur]
    ks_r = [head_skeleton(s) for s in ref]
    sm = difflib.SequenceMatcher(a=ks_c, b=ks_r, autojunk=False)
    for tag, i1, i2, j1, j2 in sm.get_opcodes():
        if tag == "equal":
            for k in range(i2 - i1):
                unify(cur[i1 + k], ref[j1 + k], votes)
        elif tag == "replace" and (i2 - i1) == (j2 - j1):
            # same number of statements changed in place: same-typed ones may still share sub-structure
            for k in range(i2 - i1):
                if type(cur[i1 + k]) is type(ref[j1 + k]):
                    unify(cur[i1 + k], ref[j1 + k], votes)


class Apply(ast.NodeTransformer):
    def __init__(self, mapping, top):
        self.m, self.top = mapping, top

    def visit_Name(self, n):
        if n.id in self.m:
            n.id = self.m[n.id]
        return n

    def visit_arg(self, n):
        if n.arg in self.m:
            n.arg = self.m[n.arg]
        return n

    def visit_FunctionDef(self, n):
        if n is not self.top and n.name in self.m:
            n.name = self.m[n.name]
        self.generic_visit(n)
        return n

    def visit_ExceptHandler(self, n):
        if n.name and n.name in self.m:
            n.name = self.m[n.name]
        self.generic_visit(n)
        return n

    def visit_keyword(self, n):
        # keyword arguments of calls to *nested* functions whose parameters were renamed
        self.generic_visit(n)
        return n


def normalise_function(cur, ref):
    """Rename bound names of ``cur`` towards ``ref`` in place.  Returns the mapping applied."""
    if ast.dump(cur) == ast.dump(ref):
        return {}
    bc, br = bound_names(cur), bound_names(ref)
    if not bc:
        return {}
    votes = Votes(bc, br)
    # top-level parameters are fixed points; unify signature-independent parts
    align_blocks(cur.body, ref.body, votes)
    groups = []
    for st in cur.body:
        names = set()
        for n in ast.walk(st):
            if isinstance(n, ast.Name):
                names.add(n.id)
            elif isinstance(n, ast.arg):
                names.add(n.arg)
        groups.append(names)
    # statements nested in compound statements count separately
    def stmt_names(stmts, acc):
        for st in stmts:
            simple = not any(isinstance(getattr(st, f, None), list) and getattr(st, f) and
                             isinstance(getattr(st, f)[0], ast.stmt) for f in ("body", "orelse", "finalbody"))
            if simple or isinstance(st, FuncTypes):
                acc.append({n.id for n in ast.walk(st) if isinstance(n, ast.Name)} |
                           {n.arg for n in ast.walk(st) if isinstance(n, ast.arg)})
            else:
                heads = set()
                for f in st._fields:
                    v = getattr(st, f, None)
                    if isinstance(v, ast.AST) and not isinstance(v, ast.stmt):
                        heads |= {n.id for n in ast.walk(v) if isinstance(n, ast.Name)}
                acc.append(heads)
                for f in ("body", "orelse", "finalbody"):
                    stmt_names(getattr(st, f, []) or [], acc)
                for h in getattr(st, "handlers", []) or []:
                    stmt_names(h.body, acc)
        return acc
    fine = stmt_names(cur.body, [])
    cooccur = lambda a, b: any(a in g and b in g for g in fine)
    # names bound by anything but a loop / comprehension target or a lambda parameter
    solo = set()
    for n in ast.walk(cur):
        if isinstance(n, (ast.Assign, ast.AugAssign, ast.AnnAssign, ast.NamedExpr, ast.withitem, ast.Delete)):
            tg = n.targets if isinstance(n, (ast.Assign, ast.Delete)) else [getattr(n, "target", None) or getattr(n, "optional_vars", None)]
            for t in tg:
                if t is not None:
                    solo |= {x.id for x in ast.walk(t) if isinstance(x, ast.Name)}
        elif isinstance(n, FuncTypes + (ast.ClassDef,)) and n is not cur:
            solo.add(n.name)
        elif isinstance(n, ast.ExceptHandler) and n.name:
            solo.add(n.name)
        elif isinstance(n, ast.alias):
            solo.add((n.asname or n.name).split(".")[0])
    occ = {}
    for n in ast.walk(cur):
        if isinstance(n, ast.Name):
            occ[n.id] = occ.get(n.id, 0) + 1
        elif isinstance(n, ast.arg):
            occ[n.arg] = occ.get(n.arg, 0) + 1
    full = votes.mapping(cooccur, solo, occ)
    # names of nested functions / classes are never merged with anything else: two definitions of one name in a scope
    # would shadow each other
    defnames = {n.name for n in ast.walk(cur) if isinstance(n, FuncTypes + (ast.ClassDef,)) and n is not cur}
    defnames |= {n.name for n in ast.walk(ref) if isinstance(n, FuncTypes + (ast.ClassDef,)) and n is not ref}
    by_target = {}
    for c, r in full.items():
        by_target.setdefault(r, []).append(c)
    for r, cs in by_target.items():
        if len(cs) > 1 and (r in defnames or any(c in defnames for c in cs)):
            for c in cs:
                if c != r:
                    del full[c]
    mapping = {c: r for c, r in full.items() if c != r}
    # a definition name is not renamed onto a name that stays bound in the current function
    for c, r in list(mapping.items()):
        if (c in defnames or r in defnames) and r in bc and full.get(r, r) == r and r != c:
            del mapping[c]
            full.pop(c, None)
    if not mapping:
        return {}
    # avoid capture: a current bound name that stays (and was not itself matched to that reference name) but equals
    # a target name of another must move away
    targets = set(mapping.values())
    for name in sorted(bc):
        if name not in full and name in targets:
            mapping[name] = name + "__was"
    # never rename onto a parameter of the top function or a free (non-bound) name used in the function
    free = {n.id for n in ast.walk(cur) if isinstance(n, ast.Name)} - bc
    for c, r in list(mapping.items()):
        if r in _params(cur) or (r in free and r not in br):
            del mapping[c]
    if mapping:
        top = cur
        for st in cur.body:
            Apply(mapping, top).visit(st)
    return mapping


def _functions(tree):
    """[(qualname-with-ordinal, FunctionDef)] for top-level functions and methods (nested defs are handled inside
    their parent)."""
    out = []
    counts = {}

    def add(prefix, fn):
        q = prefix + fn.name
        k = counts.get(q, 0)
        counts[q] = k + 1
        out.append(("%s#%d" % (q, k), fn))

    def walk_body(body, prefix):
        for st in body:
            if isinstance(st, FuncTypes):
                add(prefix, st)
            elif isinstance(st, ast.ClassDef):
                walk_body(st.body, prefix + st.name + ".")
            elif isinstance(st, (ast.If, ast.Try, ast.For, ast.While, ast.With)):
                for fld in ("body", "orelse", "finalbody"):
                    walk_body(getattr(st, fld, []) or [], prefix)
                for h in getattr(st, "handlers", []) or []:
                    walk_body(h.body, prefix)
    walk_body(tree.body, "")
    return out


def normalise_module(tree, ref_tree):
    """Normalise every top-level function / method of ``tree`` against its namesake in ``ref_tree``."""
    ref = dict(_functions(ref_tree))
    applied = {}
    for q, fn in _functions(tree):
        r = ref.get(q)
        if r is None:
            continue
        m = normalise_function(fn, r)
        if m:
            applied[q] = m
    return applied


def load_reference(refdir):
    out = {}
    if not os.path.isdir(refdir):
        return out
    for fn in os.listdir(refdir):
        if fn.endswith(".py"):
            with open(os.path.join(refdir, fn), "rb") as f:
                src = f.read().decode("utf-8")
            with warnings.catch_warnings():
                warnings.simplefilter("ignore")
                out[fn[:-3]] = ast.parse(src)
    return out
