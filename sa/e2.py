"""E2  laziness: construction-time silence (R2.1) and pull/yield typestate (R2.2 / R2.3)."""
import ast

from .core import FuncTypes, unparse, own_nodes, docstring_free, is_generator_function

# ---------------------------------------------------------------------------
# R2.1  no pull from a source while a stage is being *built*
# ---------------------------------------------------------------------------
# calls that keep a handle lazy (result is again a handle)
LAZY_CALLS = {"iter", "Stream", "thub", "StreamTeeHub", "map", "xmap", "filter", "xfilter", "zip", "xzip",
              "enumerate", "reversed_lazy", "it.chain", "it.islice", "it.takewhile", "it.tee", "it.cycle",
              "it.repeat", "it.starmap", "it.dropwhile", "chain", "blocks", "zero_pad", "ControlStream",
              "xzip_longest", "it.zip_longest", "it.accumulate", "it.chain.from_iterable"}
# calls that consume their iterable argument immediately
CONSUMERS = {"list", "tuple", "set", "frozenset", "dict", "sorted", "sum", "max", "min", "any", "all", "len",
             "reduce", "deque", "next", "OrderedDict", "array.array", "bytes", "bytearray", "reversed"}
CONSUMER_METHODS = {"take", "peek", "join", "extend"}
LAZY_METHODS = {"map", "filter", "copy", "blocks", "limit", "skip", "append", "tee", "__iter__"}


class Pull(object):
    def __init__(self, node, how, handle):
        self.node, self.how, self.handle = node, how, handle


def _names(e):
    return {n.id for n in ast.walk(e) if isinstance(n, ast.Name)}


class Silence(object):
    """Flow-insensitive taint of *handles* (values through which a source can
    be pulled) inside one non-generator frame, and the pull effects on them."""

    def __init__(self, func, handles=(), containers=(), handle_exprs=(), exempt_names=()):
        self.func = func
        self.handles = set(handles)            # names that are handles
        self.containers = set(containers)      # names that hold a tuple/list of handles
        self.handle_exprs = set(handle_exprs)  # extra expression texts that are handles (e.g. "self._data")
        self.exempt = set(exempt_names)
        self._propagate()

    # ------------------------------------------------------------ classification
    def is_handle(self, e):
        if e is None:
            return False
        if isinstance(e, ast.Name):
            return e.id in self.handles
        if unparse(e) in self.handle_exprs:
            return True
        if isinstance(e, ast.Subscript) and isinstance(e.value, ast.Name) and e.value.id in self.containers:
            return True
        if isinstance(e, ast.Starred):
            return self.is_handle(e.value)
        if isinstance(e, ast.Attribute) and e.attr == "_data":
            return self.is_handle(e.value)
        if isinstance(e, ast.Call):
            fn = unparse(e.func)
            args = list(e.args) + [k.value for k in e.keywords]
            if fn.split(".")[-1] == "tee":
                return False        # a tuple of handles: iterating / unpacking it pulls nothing
            if fn in LAZY_CALLS or fn.split(".")[-1] in ("chain", "islice", "takewhile", "from_iterable"):
                return any(self.is_handle(a) or self._is_container_expr(a) for a in args)
            if isinstance(e.func, ast.Attribute) and e.func.attr in LAZY_METHODS and self.is_handle(e.func.value):
                return True
            # calling something with a handle: result is assumed to wrap it lazily (the callee is judged on its own)
            if any(self.is_handle(a) for a in args):
                return True
            return False
        if isinstance(e, ast.GeneratorExp):
            # a generator *of* handles over a non-source iterable is a collection, not a handle
            return self.is_handle(e.generators[0].iter)
        if isinstance(e, (ast.BinOp,)):
            return self.is_handle(e.left) or self.is_handle(e.right)
        if isinstance(e, ast.UnaryOp):
            return self.is_handle(e.operand)
        if isinstance(e, ast.IfExp):
            return self.is_handle(e.body) or self.is_handle(e.orelse)
        return False

    def _is_container_expr(self, e):
        if isinstance(e, ast.Starred):
            e = e.value
        if isinstance(e, ast.Name) and e.id in self.containers:
            return True
        if isinstance(e, ast.Subscript) and isinstance(e.slice, ast.Slice):
            return self._is_container_expr(e.value)
        return False

    def _propagate(self):
        changed = True
        rounds = 0
        while changed and rounds < 10:
            changed = False
            rounds += 1
            for n in own_nodes(self.func):
                if isinstance(n, ast.Assign):
                    if self._is_container_expr(n.value) and not isinstance(n.value, ast.Name):
                        # rest = args[1:] : a slice of the tuple of handles is again a tuple of handles, not a handle
                        for t in n.targets:
                            if isinstance(t, ast.Name) and t.id not in self.containers and t.id not in self.handles:
                                self.containers.add(t.id) if isinstance(self.containers, set) else self.containers.append(t.id)
                                changed = True
                        continue
                    hv = self.is_handle(n.value)
                    for t in n.targets:
                        if isinstance(t, ast.Name) and hv and t.id not in self.handles and t.id not in self.exempt:
                            self.handles.add(t.id)
                            changed = True
                        elif isinstance(t, ast.Tuple) and isinstance(n.value, ast.Call) \
                                and unparse(n.value.func).endswith("tee") \
                                and any(self.is_handle(a) for a in n.value.args):
                            for el in t.elts:
                                if isinstance(el, ast.Name) and el.id not in self.handles:
                                    self.handles.add(el.id)
                                    changed = True
                        elif isinstance(t, ast.Attribute) and hv:
                            txt = unparse(t)
                            if txt not in self.handle_exprs:
                                self.handle_exprs.add(txt)
                                changed = True
                        elif isinstance(t, ast.Name) and isinstance(n.value, (ast.ListComp, ast.List, ast.Tuple)) \
                                and any(self.is_handle(x) for x in ast.walk(n.value)
                                        if isinstance(x, (ast.Name, ast.Call))) and t.id not in self.containers \
                                and not hv:
                            pass

    # ------------------------------------------------------------------- pulls
    def pulls(self):
        out = []
        for n in own_nodes(self.func):
            if isinstance(n, ast.For) and self.is_handle(n.iter):
                out.append(Pull(n, "for-loop over a source at construction time", unparse(n.iter)))
            elif isinstance(n, (ast.ListComp, ast.SetComp, ast.DictComp)):
                for g in n.generators:
                    if self.is_handle(g.iter):
                        out.append(Pull(n, "eager comprehension over a source", unparse(g.iter)))
            elif isinstance(n, ast.Call):
                fn = unparse(n.func)
                base = fn.split(".")[-1]
                args = list(n.args)
                if (fn in CONSUMERS or base in ("reduce", "deque")) and args:
                    cand = args[1] if base == "reduce" and len(args) > 1 else args[0]
                    if self.is_handle(cand) and not isinstance(cand, ast.Starred):
                        if fn == "next":
                            out.append(Pull(n, "next() on a source", unparse(cand)))
                        else:
                            out.append(Pull(n, "%s() consumes a source" % fn, unparse(cand)))
                if isinstance(n.func, ast.Attribute) and n.func.attr in CONSUMER_METHODS:
                    if n.func.attr in ("take", "peek") and self.is_handle(n.func.value):
                        out.append(Pull(n, ".%s() on a source" % n.func.attr, unparse(n.func.value)))
                    elif n.func.attr in ("join", "extend") and args and self.is_handle(args[0]):
                        out.append(Pull(n, ".%s() consumes a source" % n.func.attr, unparse(args[0])))
                for a in n.args:
                    if isinstance(a, ast.Starred) and self.is_handle(a.value) and not self._is_container_expr(a.value):
                        out.append(Pull(n, "star-unpacking of a source", unparse(a.value)))
            elif isinstance(n, ast.Assign) and isinstance(n.targets[0], (ast.Tuple, ast.List)) \
                    and self.is_handle(n.value) and not (isinstance(n.value, ast.Call)
                                                         and unparse(n.value.func).endswith("tee")):
                out.append(Pull(n, "unpacking assignment pulls from a source", unparse(n.value)))
            elif isinstance(n, ast.Compare) and any(isinstance(op, (ast.In, ast.NotIn)) for op in n.ops) \
                    and any(self.is_handle(c) for c in n.comparators):
                out.append(Pull(n, "membership test iterates a source", unparse(n)))
        return out


# ---------------------------------------------------------------------------
# R2.2  pull / yield alternation of sample-wise generator stages
# ---------------------------------------------------------------------------
class Outcome(object):
    def __init__(self):
        self.normal, self.brk, self.cont, self.ret = set(), set(), set(), set()


class Alternation(object):
    """Abstract interpretation of a generator body.  State = (pulls since last
    yield in {0,1,2}, phase in {pre, live, done}, yields since the last
    successful pull in {0,1,2}).  ``mode`` = "sample" (exactly one yield per
    pull) or "block" (at most one yield per pull, pulls only through ``for``)."""

    def __init__(self, func, sources, leading_ok=False, trailing_ok=False, mode="sample", max_yields=1):
        self.func = func
        self.src = set(sources)
        self.flags = {"leading_ok": leading_ok, "trailing_ok": trailing_ok}
        self.mode = mode
        self.viol = []
        self.n_pull_sites = 0
        self.n_yield_sites = 0
        self._pull_sites = set()
        self._yield_sites = set()
        # names derived by iter(src), or bound to a lazy view of a source (blk_sig = Stream(sig).blocks(..)): pulling
        # from the name pulls from the source
        for _ in range(4):
            grew = False
            for n in own_nodes(func):
                if isinstance(n, ast.Assign) and len(n.targets) == 1 and isinstance(n.targets[0], ast.Name) \
                        and n.targets[0].id not in self.src and isinstance(n.value, (ast.Call, ast.GeneratorExp)) \
                        and self._is_src(n.value):
                    self.src.add(n.targets[0].id)
                    grew = True
            if not grew:
                break

    def _is_src(self, e):
        if isinstance(e, ast.Name):
            return e.id in self.src
        if unparse(e) in self.src:
            return True
        if isinstance(e, ast.Call) and isinstance(e.func, ast.Attribute) and e.func.attr in LAZY_METHODS:
            return self._is_src(e.func.value)
        if isinstance(e, ast.Call) and unparse(e.func) in ("Stream", "blocks", "thub") and e.args:
            return any(self._is_src(a) for a in e.args)
        if isinstance(e, ast.GeneratorExp):
            return self._is_src(e.generators[0].iter)
        if isinstance(e, ast.Call) and unparse(e.func) in ("xzip", "zip", "iter", "enumerate", "xmap", "map", "it.islice",
                                                           "islice", "it.chain", "chain", "it.takewhile", "it.dropwhile",
                                                           "xfilter", "filter", "reversed") and e.args:
            return any(self._is_src(a) for a in e.args)
        return False

    EAGER = ("list", "tuple", "deque", "collections.deque", "sum", "max", "min", "sorted", "set", "frozenset", "any", "all",
             "dict", "OrderedDict", "len")

    def _v(self, what, node):
        self.viol.append((what, node))

    def pull_ok(self, st, node):
        p, ph, y = st
        self._pull_sites.add(id(node))
        if ph == "live" and y == 0 and self.mode == "sample":
            self._v("a second item is pulled before the previous one produced an output (read-ahead / dropped "
                    "sample)", node)
        return (min(p + 1, 2), "live", 0)

    def pull_fail(self, st, node):
        p, ph, y = st
        if ph == "live" and y == 0 and self.mode == "sample":
            self._v("the input ends after an item was consumed without producing its output", node)
        return (p, "done", y)

    def do_yield(self, st, node):
        p, ph, y = st
        self._yield_sites.add(id(node))
        if ph == "live" and y >= 1:
            self._v("second yield for one input item", node)
        if ph == "pre" and not self.flags["leading_ok"]:
            self._v("yield before the first input item was read", node)
        if ph == "done" and not self.flags["trailing_ok"]:
            self._v("yield after the input is exhausted", node)
        return (0, ph, min(y + 1, 2))

    def _pulls_in(self, e):
        out = []
        for n in ast.walk(e):
            if isinstance(n, ast.Call) and unparse(n.func) == "next" and n.args and self._is_src(n.args[0]):
                out.append(n)
            elif isinstance(n, ast.Call) and unparse(n.func) in self.EAGER and n.args and self._is_src(n.args[0]):
                # list(src), deque(islice(src, n), maxlen=0), ...: consumes the source on the spot
                out.append(n)
            elif isinstance(n, ast.Call) and isinstance(n.func, ast.Attribute) and n.func.attr in ("extend", "update") \
                    and n.args and self._is_src(n.args[0]):
                out.append(n)
        return out

    def run(self, stmts, states, catch=None):
        """catch: set collecting states in which a pull failed inside a protecting try (else they end the frame)."""
        r = Outcome()
        cur = set(states)
        for s in stmts:
            if not cur:
                break
            nxt = set()
            if isinstance(s, ast.For) and self._is_src(s.iter):
                seen, work, out = set(), set(cur), set()
                while work:
                    st = work.pop()
                    if st in seen:
                        continue
                    seen.add(st)
                    out.add(self.pull_fail(st, s))
                    b = self.run(s.body, {self.pull_ok(st, s)}, catch)
                    work |= b.normal | b.cont
                    out |= b.brk
                    r.ret |= b.ret
                if s.orelse:
                    o = self.run(s.orelse, out, catch)
                    out = o.normal
                    r.ret |= o.ret
                nxt = out
            elif isinstance(s, (ast.For, ast.While)):
                seen, work, out = set(), set(cur), set()
                infinite = isinstance(s, ast.While) and isinstance(s.test, ast.Constant) and s.test.value is True
                while work:
                    st = work.pop()
                    if st in seen:
                        continue
                    seen.add(st)
                    if not infinite:
                        out.add(st)
                    b = self.run(s.body, {st}, catch)
                    work |= b.normal | b.cont
                    out |= b.brk
                    r.ret |= b.ret
                nxt = out
            elif isinstance(s, ast.If):
                a = self.run(s.body, cur, catch)
                b = self.run(s.orelse, cur, catch)
                nxt = a.normal | b.normal
                r.brk |= a.brk | b.brk
                r.cont |= a.cont | b.cont
                r.ret |= a.ret | b.ret
            elif isinstance(s, ast.Try):
                catches = any(h.type is None or any(k in unparse(h.type) for k in ("StopIteration", "Exception"))
                              for h in s.handlers)
                failed = set() if catches else catch
                a = self.run(s.body, cur, failed)
                nxt = a.normal
                r.brk |= a.brk
                r.cont |= a.cont
                r.ret |= a.ret
                if catches:
                    for h in s.handlers:
                        hb = self.run(h.body, failed, catch)
                        nxt |= hb.normal
                        r.ret |= hb.ret
                        r.brk |= hb.brk
                        r.cont |= hb.cont
                if s.orelse:
                    o = self.run(s.orelse, a.normal, catch)
                    nxt = (nxt - a.normal) | o.normal
                    r.ret |= o.ret
                if s.finalbody:
                    f = self.run(s.finalbody, nxt, catch)
                    nxt = f.normal
            elif isinstance(s, ast.With):
                a = self.run(s.body, cur, catch)
                nxt = a.normal
                r.brk |= a.brk
                r.cont |= a.cont
                r.ret |= a.ret
            elif isinstance(s, ast.Break):
                r.brk |= cur
            elif isinstance(s, ast.Continue):
                r.cont |= cur
            elif isinstance(s, ast.Return):
                r.ret |= cur
            elif isinstance(s, FuncTypes + (ast.ClassDef,)):
                nxt = cur
            else:
                for st in cur:
                    alive = True
                    for pn in self._pulls_in(s):
                        if self.mode == "block":
                            self._v("block stage pulls from its source outside its for header (%s): items are read that "
                                    "the block being produced does not need" % unparse(pn.func), pn)
                        if catch is not None:
                            catch.add(self.pull_fail(st, pn))
                        st = self.pull_ok(st, pn)
                    if any(isinstance(n, (ast.Yield, ast.YieldFrom)) for n in ast.walk(s)):
                        st = self.do_yield(st, s)
                    if alive:
                        nxt.add(st)
            cur = nxt
        r.normal |= cur
        return r

    def check(self):
        body = docstring_free(self.func.body)
        self.run(body, {(0, "pre", 0)})
        self.n_pull_sites = len(self._pull_sites)
        self.n_yield_sites = len(self._yield_sites)
        seen = set()
        out = []
        for what, node in self.viol:
            k = (what, getattr(node, "lineno", 0))
            if k not in seen:
                seen.add(k)
                out.append((what, node))
        return out
