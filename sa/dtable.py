"""Decision tables: which statements of a function run for an argument of a given *kind*.

Many functions of the library dispatch on facts about their arguments that take finitely many values - ``x is None``,
``isinstance(x, Poly)``, ``len(p) == 1``, ``hasattr(self, '_hash')``.  A rule that reads the *spelling* of those guards
either misses a negated guard or trips over a reordered one.  Here the guards are *evaluated*: a scenario fixes the
truth of the atoms (``Facts``), the body is walked in execution order taking the branch every guard selects
(short-circuit ``and`` / ``or`` included; an atom evaluated on a value it does not apply to is the exception it would
be at run time), and the walk returns the simple statements that run, conditional expressions resolved.  The rule
then compares *what runs* for each scenario with the documented behaviour.  Nothing is executed: atoms are looked up,
never computed.
"""
import ast

from .core import AnalysisError, unparse

RAISE = "<raises>"


class Facts(object):
    """kinds: name -> set of class names the value is an instance of; none: names that are None; truths: source text
    of an atom -> bool; lens: source text -> int (``len(text)`` and truthiness of containers); values: source text ->
    number (for comparisons with literals); raising: atoms that raise when evaluated in this scenario."""
    def __init__(self, kinds=None, none=(), truths=None, lens=None, values=None, raising=(), types=(), iters=None):
        self.iters = dict(iters or {})      # source text of an iterable -> list of {target name: value} bindings
        self.kinds = dict(kinds or {})
        self.none = set(none)
        self.truths = dict(truths or {})
        self.lens = dict(lens or {})
        self.values = dict(values or {})
        self.raising = set(raising)
        self.types = set(types) | {"float", "int", "complex", "str", "list", "dict", "tuple", "bool"}
        for ks in self.kinds.values():
            self.types |= set(ks)

    def copy(self):
        f = Facts(self.kinds, self.none, self.truths, self.lens, self.values, self.raising, self.types, self.iters)
        return f

    def alias(self, new, old):
        """``new = old``: everything the scenario says about ``old`` holds for ``new``"""
        self.forget(new)
        if old in self.kinds:
            self.kinds[new] = set(self.kinds[old])
        if old in self.none:
            self.none.add(new)

        def ren(text):
            try:
                tree = ast.parse(text, mode="eval")
            except SyntaxError:
                return None
            hit = False
            for n in ast.walk(tree):
                if isinstance(n, ast.Name) and n.id == old:
                    n.id = new
                    hit = True
            return unparse(tree.body) if hit else None
        for d in (self.truths, self.lens, self.values, self.iters):
            for k in list(d):
                k2 = ren(k)
                if k2 is not None and k2 not in d:
                    d[k2] = d[k]
        for k in list(self.raising):
            k2 = ren(k)
            if k2 is not None:
                self.raising.add(k2)

    def forget(self, name):
        """the name was rebound to something the scenario does not describe"""
        self.kinds.pop(name, None)
        self.none.discard(name)
        for d in (self.truths, self.lens, self.values):
            for k in [k for k in d if _mentions(k, name)]:
                del d[k]


def _mentions(text, name):
    try:
        return any(isinstance(n, ast.Name) and n.id == name for n in ast.walk(ast.parse(text, mode="eval")))
    except SyntaxError:
        return name in text


def _type_names(node):
    if isinstance(node, (ast.Tuple, ast.List)):
        out = []
        for e in node.elts:
            r = _type_names(e)
            if r is None:
                return None
            out.extend(r)
        return out
    if isinstance(node, ast.Name):
        return [node.id]
    if isinstance(node, ast.Attribute):
        return [unparse(node)]
    return None


def holds(test, F):
    """True / False / RAISE, or None when the guard is not described by the scenario"""
    if isinstance(test, ast.UnaryOp) and isinstance(test.op, ast.Not):
        r = holds(test.operand, F)
        return r if r in (None, RAISE) else (not r)
    if isinstance(test, ast.BoolOp):
        is_and = isinstance(test.op, ast.And)
        for v in test.values:
            r = holds(v, F)
            if r is None or r is RAISE:
                return r
            if is_and and not r:
                return False
            if not is_and and r:
                return True
        return is_and
    if isinstance(test, ast.IfExp):
        r = holds(test.test, F)
        if r is None or r is RAISE:
            return r
        return holds(test.body if r else test.orelse, F)
    text = unparse(test)
    if text in F.raising:
        return RAISE
    if text in F.truths:
        return F.truths[text]
    if isinstance(test, ast.Compare) and len(test.ops) == 1 and isinstance(test.ops[0], (ast.Lt, ast.LtE, ast.Gt, ast.GtE)) \
            and any(isinstance(x, ast.Name) and x.id in F.none for x in (test.left, test.comparators[0])):
        return RAISE        # None has no order: TypeError on Python 3
    if isinstance(test, ast.Constant):
        return bool(test.value)
    if isinstance(test, ast.Name):
        if test.id in F.none:
            return False
        if test.id in F.lens:
            return F.lens[test.id] != 0
        if test.id in F.values:
            return bool(F.values[test.id])
        return None
    if isinstance(test, (ast.Attribute, ast.Subscript)) and text in F.lens:
        return F.lens[text] != 0
    if isinstance(test, ast.Call) and isinstance(test.func, ast.Name) and test.func.id == "isinstance" \
            and len(test.args) == 2 and not test.keywords:
        a, t = unparse(test.args[0]), _type_names(test.args[1])
        if a in F.kinds and t is not None:
            return any(x in F.kinds[a] for x in t)
        if a in F.none and t is not None:
            return False
        if a in F.types and (unparse(test.args[1]) in F.kinds or unparse(test.args[1]) in F.none):
            return RAISE            # isinstance(Type, value): TypeError
        return None
    if isinstance(test, ast.Call) and isinstance(test.func, ast.Name) and test.func.id in ("any", "all") \
            and len(test.args) == 1 and isinstance(test.args[0], (ast.GeneratorExp, ast.ListComp)) \
            and len(test.args[0].generators) == 1 and not test.args[0].generators[0].ifs \
            and unparse(test.args[0].generators[0].iter) in F.iters:
        g = test.args[0].generators[0]
        names = [n.id for n in ast.walk(g.target) if isinstance(n, ast.Name)]
        is_any = test.func.id == "any"
        for binding in F.iters[unparse(g.iter)]:
            F2 = F.copy()
            for nm in names:
                F2.forget(nm)
                if nm in binding:
                    F2.values[nm] = binding[nm]
            r = holds(test.args[0].elt, F2)
            if r is None or r is RAISE:
                return r
            if is_any and r:
                return True
            if not is_any and not r:
                return False
        return not is_any
    if isinstance(test, ast.Call) and isinstance(test.func, ast.Name) and test.func.id == "len" and len(test.args) == 1:
        a = unparse(test.args[0])
        if a in F.lens:
            return F.lens[a] != 0
        return None
    if isinstance(test, ast.Compare) and len(test.ops) == 1:
        l, r, op = test.left, test.comparators[0], test.ops[0]
        lt, rt = unparse(l), unparse(r)
        if isinstance(op, (ast.Is, ast.IsNot)):
            for x, y in ((l, r), (r, l)):
                if isinstance(y, ast.Constant) and y.value is None:
                    xt = unparse(x)
                    if xt in F.none:
                        return isinstance(op, ast.Is)
                    if xt in F.kinds or xt in F.values or xt in F.lens:
                        return isinstance(op, ast.IsNot)
            return None

        def num(e, t):
            if isinstance(e, ast.Constant) and isinstance(e.value, (int, float)) and not isinstance(e.value, bool):
                return e.value
            if isinstance(e, ast.UnaryOp) and isinstance(e.op, ast.USub) and isinstance(e.operand, ast.Constant) \
                    and isinstance(e.operand.value, (int, float)):
                return -e.operand.value
            if isinstance(e, ast.Constant) and isinstance(e.value, str):
                return e.value
            if t in F.values:
                return F.values[t]
            if isinstance(e, ast.Call) and isinstance(e.func, ast.Name) and e.func.id == "len" and len(e.args) == 1 \
                    and unparse(e.args[0]) in F.lens:
                return F.lens[unparse(e.args[0])]
            return None
        a, b = num(l, lt), num(r, rt)
        if a is None:
            a = _value_of(l, F)
        if b is None:
            b = _value_of(r, F)
        if a is None or b is None:
            return None
        if isinstance(a, str) != isinstance(b, str):
            if isinstance(op, ast.Eq):
                return False
            if isinstance(op, ast.NotEq):
                return True
            return RAISE
        fn = {ast.Eq: lambda x, y: x == y, ast.NotEq: lambda x, y: x != y, ast.Lt: lambda x, y: x < y,
              ast.LtE: lambda x, y: x <= y, ast.Gt: lambda x, y: x > y, ast.GtE: lambda x, y: x >= y}.get(type(op))
        return None if fn is None else fn(a, b)
    return None


def _unalias(e, aliases):
    if not aliases:
        return e
    e = ast.parse(unparse(e), mode="eval").body
    for n in ast.walk(e):
        if isinstance(n, ast.Name) and n.id in aliases:
            n.id = aliases[n.id]
    return e


def _value_of(e, F):
    if isinstance(e, ast.Constant) and isinstance(e.value, (int, float, str)) and not isinstance(e.value, bool):
        return e.value
    if isinstance(e, ast.BinOp) and isinstance(e.op, (ast.Add, ast.Sub, ast.Mult)):
        a, b = _value_of(e.left, F), _value_of(e.right, F)
        if isinstance(a, (int, float)) and isinstance(b, (int, float)):
            return a + b if isinstance(e.op, ast.Add) else a - b if isinstance(e.op, ast.Sub) else a * b
        return None
    if isinstance(e, ast.UnaryOp) and isinstance(e.op, ast.USub):
        a = _value_of(e.operand, F)
        return -a if isinstance(a, (int, float)) else None
    t = unparse(e)
    if t in F.values:
        return F.values[t]
    if isinstance(e, ast.Call) and isinstance(e.func, ast.Name) and e.func.id == "len" and len(e.args) == 1 \
            and unparse(e.args[0]) in F.lens:
        return F.lens[unparse(e.args[0])]
    return None


class _Resolve(ast.NodeTransformer):
    """conditional expressions whose test the scenario decides are replaced by the branch taken"""
    def __init__(self, F, where):
        self.F, self.where = F, where
        self.raised = False

    def visit_IfExp(self, node):
        r = holds(node.test, self.F)
        if r is None:
            return self.generic_visit(node)
        if r is RAISE:
            self.raised = True
            return node
        return self.visit(node.body if r else node.orelse)


class Walk(object):
    """result of walking a body under one scenario"""
    def __init__(self):
        self.ran = []           # simple statements executed (conditional expressions resolved), in order
        self.end = "fall"       # fall | return | raise
        self.last = None        # the Return / Raise node (resolved copy)
        self.raised_in_guard = None
        self.raised_kind = None
        self.aliases = {}       # copy -> original name

    def texts(self):
        """the statements that ran, as source; plain copies between names (``a = b`` of an in-lined helper's parameter)
        are undone first, so that the text speaks about the names of the scenario"""
        out = []
        for s in self.ran:
            if self.aliases:
                s = ast.parse(unparse(s)).body[0]
                for n in ast.walk(s):
                    if isinstance(n, ast.Name):
                        seen = set()
                        while n.id in self.aliases and n.id not in seen:
                            seen.add(n.id)
                            n.id = self.aliases[n.id]
                if isinstance(s, ast.Assign) and len(s.targets) == 1 and isinstance(s.targets[0], ast.Name) \
                        and isinstance(s.value, ast.Name) and s.targets[0].id == s.value.id:
                    continue
            out.append(unparse(s))
        return out


class _Raised(Exception):
    def __init__(self, kind, st):
        Exception.__init__(self, kind)
        self.kind, self.st = kind, st


_EXC_BASES = {"IndexError": ("LookupError",), "KeyError": ("LookupError",), "ZeroDivisionError": ("ArithmeticError",),
              "OverflowError": ("ArithmeticError",), "StopIteration": (), "AttributeError": (), "TypeError": (),
              "ValueError": ()}


def _catches(handler, kind):
    if handler.type is None:
        return True
    names = [unparse(e) for e in handler.type.elts] if isinstance(handler.type, ast.Tuple) else [unparse(handler.type)]
    return bool(set(names) & ({kind, "Exception", "BaseException"} | set(_EXC_BASES.get(kind, ()))))


def walk(stmts, F, where="?", rebind=None, strict=True, flow=False, exc=None):
    """Walk ``stmts`` taking the branches the scenario ``F`` selects.  ``rebind(name, value_expr, F)`` is called for
    every assignment to a plain name so that the scenario can follow a conversion (``other = Poly(other)``); without
    it the name is forgotten.  A guard the scenario does not describe raises AnalysisError (``strict``) - the rule then
    says so instead of guessing.

    ``flow``: ``with`` bodies are walked (the ``with`` header is recorded as it stands, body emptied), ``try`` bodies
    too - an expression listed in ``exc`` (source text -> exception name) raises when the statement holding it is
    reached, and the walk goes on in the first handler that catches it - and ``break`` / ``continue`` end the walk
    (``end`` = "break" / "continue")."""
    W = Walk()
    F = F.copy()
    exc = dict(exc or {})

    def raising_in(node):
        if not exc:
            return None
        for n in ast.walk(node):
            if isinstance(n, ast.expr) and not isinstance(getattr(n, "ctx", None), (ast.Store, ast.Del)):
                k = exc.get(unparse(n))
                if k is not None:
                    return k
        return None

    def run(block):
        for st in block:
            if flow and isinstance(st, ast.With):
                for it_ in st.items:
                    k_ = raising_in(it_.context_expr)
                    if k_ is not None:
                        raise _Raised(k_, st)
                hd = ast.With(items=st.items, body=[ast.Pass()], lineno=getattr(st, "lineno", 0), col_offset=0)
                ast.fix_missing_locations(hd)
                W.ran.append(hd)
                if run(st.body):
                    return True
                continue
            if flow and isinstance(st, ast.Try):
                done = False
                try:
                    try:
                        done = run(st.body)
                    except _Raised as ex:
                        hs = [h for h in st.handlers if _catches(h, ex.kind)]
                        if not hs:
                            raise
                        done = run(hs[0].body)
                    else:
                        if not done:
                            done = run(st.orelse)
                finally:
                    if st.finalbody:
                        saved = (W.end, W.last)
                        if run(st.finalbody):
                            done = True
                        elif done:
                            W.end, W.last = saved
                if done:
                    return True
                continue
            if flow and isinstance(st, (ast.Break, ast.Continue)):
                W.end = "break" if isinstance(st, ast.Break) else "continue"
                W.ran.append(st)
                return True
            if flow and isinstance(st, ast.If):
                k_ = raising_in(st.test) if holds(st.test, F) is None else None
                if k_ is not None:
                    raise _Raised(k_, st)
            elif flow and not isinstance(st, (ast.For, ast.While) + (ast.FunctionDef, ast.AsyncFunctionDef, ast.ClassDef)):
                k_ = raising_in(st)
                if k_ is not None:
                    raise _Raised(k_, st)
            if isinstance(st, ast.If):
                r = holds(st.test, F)
                if r is None:
                    if strict:
                        raise AnalysisError("%s: guard not described by the scenario: %s" % (where, unparse(st.test)))
                    W.ran.append(st)
                    continue
                if r is RAISE:
                    W.end = "raise"
                    W.raised_in_guard = st.test
                    return True
                if run(st.body if r else st.orelse):
                    return True
                continue
            if isinstance(st, (ast.FunctionDef, ast.AsyncFunctionDef, ast.Pass)):
                continue
            if isinstance(st, ast.Expr) and isinstance(st.value, ast.Constant):
                continue
            res = _Resolve(F, where)
            cp = res.visit(ast.parse(unparse(st)).body[0])
            ast.fix_missing_locations(cp)
            if res.raised:
                W.end = "raise"
                W.raised_in_guard = st
                return True
            cp.lineno = getattr(st, "lineno", 0)
            if isinstance(st, ast.Return):
                W.end, W.last = "return", cp
                W.ran.append(cp)
                return True
            if isinstance(st, ast.Raise):
                W.end, W.last = "raise", cp
                W.ran.append(cp)
                return True
            W.ran.append(cp)
            if isinstance(st, ast.Assign):
                for t in st.targets:
                    for n in ast.walk(t):
                        if isinstance(n, ast.Name) and isinstance(n.ctx, ast.Store):
                            known = _value_of(cp.value, F) if isinstance(t, ast.Name) else None
                            truth = holds(cp.value, F) if isinstance(t, ast.Name) and known is None and isinstance(
                                cp.value, (ast.Compare, ast.BoolOp, ast.UnaryOp, ast.Call)) else None
                            copy_of = cp.value.id if isinstance(t, ast.Name) and isinstance(cp.value, ast.Name) else None
                            if copy_of is not None and (copy_of in F.kinds or copy_of in F.none or copy_of in F.lens
                                                        or copy_of in F.values or copy_of in W.aliases):
                                base = W.aliases.get(copy_of, copy_of)
                                F.alias(n.id, copy_of)
                                if n.id != base:
                                    W.aliases[n.id] = base
                                else:
                                    W.aliases.pop(n.id, None)
                                continue
                            if rebind is not None and isinstance(t, ast.Name):
                                rebind(W.aliases.get(n.id, n.id), _unalias(cp.value, W.aliases), F)
                                if n.id in W.aliases:
                                    # the hook spoke about the original name: carry what it said over to the copy
                                    F.alias(n.id, W.aliases[n.id])
                            else:
                                F.forget(n.id)
                            if known is not None and n.id not in F.values and n.id not in F.kinds:
                                F.values[n.id] = known          # a local alias of a described quantity
                            elif truth in (True, False) and n.id not in F.truths and n.id not in F.values:
                                F.truths[n.id] = truth
            elif isinstance(st, ast.AugAssign) and isinstance(st.target, ast.Name):
                F.forget(st.target.id)
        return False
    try:
        run(list(stmts))
    except _Raised as ex:
        W.end = "raise"
        W.raised_in_guard = ex.st
        W.raised_kind = ex.kind
    return W


def specialise(stmts, F):
    """Copy of ``stmts`` with every guard the scenario decides resolved - everywhere, loop bodies included: the arm not
    taken goes, decided operands of ``and`` / ``or`` are dropped, conditional expressions are replaced by the branch
    taken, a local bound once to a decided test (``skips = hop > size``) is a described name from then on.  What the
    scenario does not describe is kept as it is.  (A partial evaluation of guards over looked-up atoms; no code runs.)"""
    F = F.copy()
    TRUE, FALSE = ast.Constant(value=True), ast.Constant(value=False)
    stores = {}
    for st0 in stmts:
        for n in ast.walk(st0):
            if isinstance(n, ast.Name) and isinstance(n.ctx, (ast.Store, ast.Del)):
                stores[n.id] = stores.get(n.id, 0) + 1

    def simp(t):
        """bool when decided, else a (possibly simplified) expression"""
        r = holds(t, F)
        if r is True or r is False:
            return r
        if isinstance(t, ast.UnaryOp) and isinstance(t.op, ast.Not):
            x = simp(t.operand)
            if x is True or x is False:
                return not x
            return ast.UnaryOp(op=ast.Not(), operand=x)
        if isinstance(t, ast.BoolOp):
            is_and = isinstance(t.op, ast.And)
            keep = []
            for v in t.values:
                x = simp(v)
                if x is True or x is False:
                    if x != is_and:
                        # a false operand of ``and`` / a true one of ``or`` decides the whole thing - provided every
                        # operand before it was decided too (the others would have been evaluated first)
                        if not keep:
                            return x
                        keep.append(FALSE if not x else TRUE)
                        break
                    continue
                keep.append(x)
            if not keep:
                return is_and
            return keep[0] if len(keep) == 1 else ast.BoolOp(op=t.op, values=keep)
        return t

    def block(body):
        out = []
        for st in body:
            st = ast.parse(unparse(st)).body[0]
            res = _Resolve(F, "specialise")
            if isinstance(st, ast.If):
                x = simp(st.test)
                if x is True:
                    out.extend(block(st.body))
                    continue
                if x is False:
                    out.extend(block(st.orelse))
                    continue
                st.test = x
                st.body = block(st.body) or [ast.Pass()]
                st.orelse = block(st.orelse)
                out.append(st)
                continue
            if isinstance(st, (ast.For, ast.While)):
                if isinstance(st, ast.While):
                    x = simp(st.test)
                    if x is False:
                        out.extend(block(st.orelse))
                        continue
                    st.test = TRUE if x is True else x
                st.body = block(st.body) or [ast.Pass()]
                st.orelse = block(st.orelse)
                out.append(st)
                continue
            if isinstance(st, ast.With):
                st.body = block(st.body) or [ast.Pass()]
                out.append(st)
                continue
            if isinstance(st, ast.Try):
                st.body = block(st.body) or [ast.Pass()]
                for h in st.handlers:
                    h.body = block(h.body) or [ast.Pass()]
                st.orelse = block(st.orelse)
                st.finalbody = block(st.finalbody)
                out.append(st)
                continue
            if isinstance(st, (ast.FunctionDef, ast.AsyncFunctionDef, ast.ClassDef)):
                out.append(st)
                continue
            st = res.visit(st)
            if isinstance(st, ast.Assign) and len(st.targets) == 1 and isinstance(st.targets[0], ast.Name):
                nm = st.targets[0].id
                r = holds(st.value, F) if isinstance(st.value, (ast.Compare, ast.BoolOp, ast.UnaryOp, ast.Call)) else None
                F.forget(nm)
                if (r is True or r is False) and stores.get(nm) == 1:
                    F.truths[nm] = r        # bound once: the flag keeps this value wherever it is read
            elif isinstance(st, ast.AugAssign) and isinstance(st.target, ast.Name):
                F.forget(st.target.id)
            out.append(st)
        for s_ in out:
            ast.fix_missing_locations(s_)
        return out
    return block(list(stmts))

