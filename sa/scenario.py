"""Decision tables over representative inputs.

Small pure functions of the library (``Stream.take``, ``skip``, ``limit`` ...) decide what to do from arithmetic
facts about one scalar argument (is it None / infinite / a float / positive).  Instead of reading the *spelling* of
their guards, the body is constant-folded (``peval.Folder``: literals, comparisons, builtins on literals - no
repository code runs) for a list of representative arguments; everything that touches the stream itself stays a
symbolic term (``Sym``).  The folded outcome of every representative is compared with the documented one, whatever
the order and spelling of the tests.  A guard that is evaluated on a value it cannot take (``isinf(None)``) is the
exception it would be at run time (``Raises``).
"""
import ast
import math

from .ratfun import Inconclusive
from .peval import Folder, Obj


class Sym(object):
    """symbolic term: head and arguments, compared structurally"""
    __slots__ = ("head", "args")

    def __init__(self, head, *args):
        self.head, self.args = head, tuple(args)

    def __eq__(self, other):
        return isinstance(other, Sym) and self.head == other.head and self.args == other.args

    def __ne__(self, other):
        return not self == other

    def __hash__(self):
        return hash((self.head, self.args))

    def __repr__(self):
        if not self.args:
            return str(self.head)
        return "%s(%s)" % (self.head, ", ".join(_show(a) for a in self.args))


def _show(v):
    if isinstance(v, float) and v != v:
        return "nan"
    return repr(v)


class Raises(Exception):
    def __init__(self, kind):
        Exception.__init__(self, kind)
        self.kind = kind


def rint_model(x):
    """documented behaviour of lazy_misc.rint(x): nearest integer, exact halves away from zero"""
    if x != x or x in (float("inf"), float("-inf")):
        raise Raises("ValueError")
    return int(math.floor(abs(x) + 0.5)) * (1 if x >= 0 else -1)


PY_TYPES = {"float": float, "int": int, "INT_TYPES": int, "complex": complex, "str": str, "bool": bool,
            "(int, float)": (int, float), "(float, int)": (int, float), "Number": (int, float, complex)}


def isinstance_concrete(value, typetext):
    if isinstance(value, (Sym, Obj)):
        raise Inconclusive("isinstance of a symbolic value against %s" % typetext)
    t = PY_TYPES.get(typetext)
    if t is None:
        raise Inconclusive("isinstance against %s" % typetext)
    return isinstance(value, t)


def numeric_hook(canon_of, symbolic_calls):
    """call hook: math predicates on literals, rint by identity, and the named symbolic constructors.

    ``canon_of(func_node)`` resolves a callee to ``module:name`` / ``module.name``; ``symbolic_calls`` maps such a
    resolved name (or a plain source text) to the head of the Sym built from the evaluated arguments."""
    def hook(folder, e):
        f = e.func
        text = ast.unparse(f)
        resolved = canon_of(f)
        args = None

        def evargs():
            return [folder.ev(a) for a in e.args]
        if e.keywords or any(isinstance(a, ast.Starred) for a in e.args):
            return NotImplemented
        if resolved in ("math.isinf", "math:isinf", "math.isnan", "math:isnan") or (
                resolved is None and text in ("isinf", "isnan", "math.isinf", "math.isnan")):
            (x,) = evargs()
            if isinstance(x, (Sym, Obj)):
                raise Inconclusive("%s of a symbolic value" % text)
            if not isinstance(x, (int, float)) or isinstance(x, bool) and False:
                raise Raises("TypeError")
            return math.isinf(x) if text.endswith("isinf") else math.isnan(x)
        if resolved in ("lazy_misc:rint", "lazy_misc.rint"):
            args = evargs()
            if len(args) != 1 or isinstance(args[0], (Sym, Obj)):
                raise Inconclusive("rint of %r" % (args,))
            if not isinstance(args[0], (int, float)):
                raise Raises("TypeError")
            return rint_model(args[0])
        if isinstance(f, ast.Name) and f.id == "round" and "round" not in folder.env:
            args = evargs()
            if any(isinstance(a, (Sym, Obj)) for a in args):
                raise Inconclusive("round of a symbolic value")
            try:
                return round(*args)
            except (OverflowError, ValueError):
                raise Raises("OverflowError")
            except TypeError:
                raise Raises("TypeError")
        if isinstance(f, ast.Name) and f.id == "int" and "int" not in folder.env:
            args = evargs()
            if any(isinstance(a, (Sym, Obj)) for a in args):
                raise Inconclusive("int of a symbolic value")
            try:
                return int(*args)
            except (OverflowError, ValueError):
                raise Raises("OverflowError")
            except TypeError:
                raise Raises("TypeError")
        if isinstance(f, ast.Name) and f.id in ("max", "min") and f.id not in folder.env:
            args = evargs()
            if any(isinstance(a, (Sym, Obj)) for a in args):
                return Sym(f.id, *args)
            try:
                return (max if f.id == "max" else min)(*args)
            except TypeError:
                raise Raises("TypeError")
        for key in (resolved, text):
            if key in symbolic_calls:
                return Sym(symbolic_calls[key], *evargs())
        if isinstance(f, ast.Name) and f.id in folder.env and isinstance(folder.env[f.id], Sym):
            return Sym("call", folder.env[f.id], *evargs())
        return NotImplemented
    return hook


class ScenarioFolder(Folder):
    """Folder on literals: floats take part in arithmetic; an operation the operands do not support is the
    TypeError it would be at run time"""
    def _cmp(self, op, a, b):
        if isinstance(a, (Sym, Obj)) or isinstance(b, (Sym, Obj)):
            if isinstance(op, (ast.Is, ast.IsNot)):
                same = a is b or (isinstance(a, Sym) and a == b)
                return same if isinstance(op, ast.Is) else not same
            raise Inconclusive("comparison on a symbolic value")
        plain = (int, float, str, type(None), tuple, list, bool)
        if isinstance(a, plain) and isinstance(b, plain) and not isinstance(op, (ast.Is, ast.IsNot, ast.In, ast.NotIn)):
            import operator as o_
            fn = {ast.Eq: o_.eq, ast.NotEq: o_.ne, ast.Lt: o_.lt, ast.LtE: o_.le, ast.Gt: o_.gt, ast.GtE: o_.ge}[type(op)]
            try:
                return fn(a, b)
            except TypeError:
                raise Raises("TypeError")
        return Folder._cmp(self, op, a, b)

    def ev_Name(self, e):
        if e.id not in self.env and e.id in ("float", "int", "complex", "str", "bool", "tuple", "list"):
            return {"float": float, "int": int, "complex": complex, "str": str, "bool": bool, "tuple": tuple,
                    "list": list}[e.id]
        return Folder.ev_Name(self, e)

    def ev_Call(self, e):
        if isinstance(e.func, ast.Name) and e.func.id == "isinstance" and len(e.args) == 2 and not e.keywords \
                and "isinstance" not in self.env:
            v = self.ev(e.args[0])
            text = ast.unparse(e.args[1])
            if text in PY_TYPES:
                t = PY_TYPES[text]
            else:
                try:
                    t = self.ev(e.args[1])
                except Inconclusive:
                    return self.isinstance_hook(v, text)
                ok_t = isinstance(t, type) or (isinstance(t, tuple) and all(isinstance(x, type) for x in t))
                if not ok_t:
                    if isinstance(t, (Sym, Obj)):
                        raise Inconclusive("isinstance against a symbolic value")
                    raise Raises("TypeError")
            if isinstance(v, (Sym, Obj)):
                return self.isinstance_hook(v, text)
            return isinstance(v, t)
        return Folder.ev_Call(self, e)

    def ev_BinOp(self, e):
        a, b = self.ev(e.left), self.ev(e.right)
        num = (int, float)
        if isinstance(a, num) and isinstance(b, num) and not isinstance(a, bool) and not isinstance(b, bool):
            import operator as o_
            fn = {ast.Add: o_.add, ast.Sub: o_.sub, ast.Mult: o_.mul, ast.Div: o_.truediv, ast.FloorDiv: o_.floordiv,
                  ast.Mod: o_.mod, ast.Pow: o_.pow}.get(type(e.op))
            if fn is None:
                raise Inconclusive("operator %s" % type(e.op).__name__)
            try:
                return fn(a, b)
            except ZeroDivisionError:
                raise Raises("ZeroDivisionError")
            except OverflowError:
                raise Raises("OverflowError")
        if (a is None or b is None) and not isinstance(a, (Sym, Obj)) and not isinstance(b, (Sym, Obj)):
            raise Raises("TypeError")
        return Folder.ev_BinOp(self, e)


def run_table(stmts, scenarios, make_env, call_hook, isinstance_hook=isinstance_concrete):
    """[(label, outcome)] with outcome ("return", value) | ("raise", kind) | ("fall", env) for every scenario;
    Inconclusive propagates (the body is outside the folded fragment)."""
    out = []
    for label, binding in scenarios:
        env = make_env()
        env.update(binding)
        fo = ScenarioFolder(env, isinstance_hook=isinstance_hook, call_hook=call_hook)
        try:
            r = fo.run(stmts)
        except Raises as ex:
            r = ("raise", ex.kind)
        except TypeError:
            r = ("raise", "TypeError")
        if r is None:
            r = ("fall", fo.env)
        elif r[0] == "raise" and len(r) == 2 and isinstance(r[1], str) and r[1].startswith("raise "):
            m = r[1][len("raise "):]
            r = ("raise", m.split("(")[0].strip())
        out.append((label, r))
    return out
