#!/usr/bin/env python
"""Soundness test of the normalisation engines (E12-E14): NOT a property check.

For a behaviour-preserving patch of /verif/seeded-benign (or the unchanged tree with --plain) the *analysed view* of
every module - after helper inlining, adoption of reference units / statements and alpha-normalisation - is written
back as source and the repository's pinned test suite is run on it.  If the engines are sound the view behaves like
the code it was made from, so every test of BASELINE.stable_pass must still pass.  (This runs repository code: it
validates the tool, it decides no property and is not referenced by MANIFEST.json.)

usage: view_roundtrip.py [--jobs N] [--plain] [CASE ...]
"""
import argparse
import ast
import json
import os
import shutil
import subprocess
import sys
import xml.etree.ElementTree as ET
from concurrent.futures import ThreadPoolExecutor

VERIF = os.path.dirname(os.path.dirname(os.path.abspath(__file__)))
CORPUS = os.path.join(VERIF, "seeded-benign")
sys.path.insert(0, VERIF)


def sh(cmd, cwd=None, timeout=1800, env=None):
    p = subprocess.run(cmd, shell=True, cwd=cwd, capture_output=True, text=True, timeout=timeout, env=env)
    return p.returncode, p.stdout + p.stderr


def one(case, scratch, base):
    wt = os.path.join(scratch, case or "plain")
    shutil.rmtree(wt, ignore_errors=True)
    os.makedirs(wt)
    sh("git -C /repo archive HEAD | tar -x -C %s" % wt)
    if case:
        rc, o = sh("patch -p1 -s < %s" % os.path.join(CORPUS, case, "patch.diff"), wt)
        if rc:
            return case, "patch does not apply", []
    # build the view in a child process (fresh engine state), write it back
    rc, o = sh("VERIF_NO_CACHE=1 %s -W ignore %s --write-view %s" % (sys.executable, os.path.abspath(__file__), wt), VERIF)
    info = o.strip().splitlines()[-1] if o.strip() else "?"
    if rc:
        return case, "view construction failed: " + o[-300:], []
    xml = os.path.join(wt, "junit.xml")
    env = dict(os.environ)
    env.pop("AUDIOLAZY_VERIF", None)
    cmd = base["cmd"].replace("cd /repo", "cd %s" % wt).replace("<file>", xml).replace("--timeout=900", "--timeout=120")
    sh(cmd, env=env)
    passed = set()
    try:
        for tc in ET.parse(xml).getroot().iter("testcase"):
            if not any(ch.tag in ("failure", "error", "skipped") for ch in tc):
                passed.add("%s::%s" % (tc.get("classname"), tc.get("name")))
    except Exception as ex:
        return case, "no junit result: %s" % ex, []
    missing = sorted(set(base["stable_pass"]) - passed)
    shutil.rmtree(wt, ignore_errors=True)
    return case, info, missing


def write_view(wt):
    from sa.core import Repo
    r = Repo(wt)
    n = 0
    for name, m in r.modules.items():
        src = ast.unparse(m.tree)
        if ast.dump(ast.parse(src)) != ast.dump(ast.parse(m.src)):
            n += 1
            open(m.path, "w").write(src + "\n")
    print("rewritten %d adopted=%s segments=%s inlined=%s" % (n, sorted(r.adopted), sorted(r.segments), sorted(r.inlined)))


def main():
    if len(sys.argv) == 3 and sys.argv[1] == "--write-view":
        write_view(sys.argv[2])
        return 0
    ap = argparse.ArgumentParser()
    ap.add_argument("--jobs", type=int, default=8)
    ap.add_argument("--plain", action="store_true")
    ap.add_argument("cases", nargs="*")
    a = ap.parse_args()
    base = json.load(open("/root/.vp/BASELINE.json"))
    scratch = os.environ.get("VERIF_SCRATCH", "/var/tmp/verif-roundtrip")
    os.makedirs(scratch, exist_ok=True)
    cases = a.cases or sorted(d for d in os.listdir(CORPUS) if os.path.isfile(os.path.join(CORPUS, d, "patch.diff")))
    if a.plain:
        cases = [None]
    bad = 0
    with ThreadPoolExecutor(a.jobs) as ex:
        for case, info, missing in ex.map(lambda c: one(c, scratch, base), cases):
            tag = "ok" if not missing and not info.startswith(("patch", "view", "no junit")) else "BROKEN"
            if tag != "ok":
                bad += 1
            print("%-8s %-7s %s" % (case or "plain", tag, info[:150]))
            for m in missing[:5]:
                print("      missing", m)
    print("cases: %d, view behaves differently: %d" % (len(cases), bad))
    try:
        os.rmdir(scratch)
    except OSError:
        pass
    return 1 if bad else 0


if __name__ == "__main__":
    sys.exit(main())
