#!/usr/bin/env python
"""Automatic sweep of behaviour-preserving one-site rewrites: NOT a property check (it validates the checker).

Every variant is /repo's package with ONE syntactic rewrite that keeps the meaning by construction (the arms of an
if / else swapped under a negated test, De Morgan, a local renamed, a conditional expression returned as two returns,
a temporary introduced before a return or removed, a storing loop turned into a comprehension or back, two nested
ifs merged, a trailing else dedented after a returning arm, a lambda bound to a name turned into a def, ...).  All 20
checks are run on every variant; each must stay silent.  A variant on which a check prints VIOLATION is a false
alarm of that check; exit 2 means the rule could not read the rewritten code (no alarm, but no verdict either).

usage: autobenign.py [--jobs N] [--per-kind K] [--seed S] [--files lazy_stream.py ...] [--out FILE] [--keep-bad DIR]
Scratch copies live in a fresh directory under $VERIF_SCRATCH (default /var/tmp) and are removed.  Exit status 0 always.
"""
import argparse
import ast
import copy
import json
import os
import random
import shutil
import subprocess
import sys
from concurrent.futures import ThreadPoolExecutor

VERIF = os.path.dirname(os.path.dirname(os.path.abspath(__file__)))
FuncTypes = (ast.FunctionDef, ast.AsyncFunctionDef)


def functions(tree):
    for n in ast.walk(tree):
        if isinstance(n, FuncTypes):
            yield n


def own_nodes(fn):
    """nodes of fn outside nested function / class / lambda scopes"""
    stack = list(fn.body)
    while stack:
        n = stack.pop()
        yield n
        for ch in ast.iter_child_nodes(n):
            if isinstance(ch, FuncTypes + (ast.ClassDef, ast.Lambda)):
                continue
            stack.append(ch)


def always_returns(stmts):
    if not stmts:
        return False
    last = stmts[-1]
    if isinstance(last, (ast.Return, ast.Raise)):
        return True
    if isinstance(last, ast.If) and last.orelse:
        return always_returns(last.body) and always_returns(last.orelse)
    return False


def blocks_of(node):
    for f in ("body", "orelse", "finalbody"):
        b = getattr(node, f, None)
        if isinstance(b, list) and b and isinstance(b[0], ast.stmt):
            yield b
    for h in getattr(node, "handlers", []) or []:
        yield h.body


def all_blocks(fn):
    todo = [fn]
    while todo:
        n = todo.pop()
        for b in blocks_of(n):
            yield b
            for st in b:
                if not isinstance(st, FuncTypes + (ast.ClassDef,)):
                    todo.append(st)


# ------------------------------------------------------------------ rewrites: each returns a list of (label, thunk)
def sites(tree):
    out = []
    for fn in functions(tree):
        fname = fn.name
        nested = any(isinstance(n, FuncTypes + (ast.Lambda, ast.ClassDef, ast.ListComp, ast.GeneratorExp, ast.SetComp,
                                                 ast.DictComp)) for st in fn.body for n in ast.walk(st))
        uses_scope_tricks = any(isinstance(n, (ast.Global, ast.Nonlocal)) or (
            isinstance(n, ast.Name) and n.id in ("locals", "vars", "eval", "exec")) for n in ast.walk(fn))
        for blk in all_blocks(fn):
            for i, st in enumerate(blk):
                # B1 swap the arms of an if / else
                if isinstance(st, ast.If) and st.orelse and not (len(st.orelse) == 1 and isinstance(st.orelse[0], ast.If)):
                    def b1(st=st):
                        st.test = ast.UnaryOp(op=ast.Not(), operand=st.test)
                        st.body, st.orelse = st.orelse, st.body
                    out.append(("if-swap", fname, st.lineno, b1))
                # B13 merge two nested ifs
                if isinstance(st, ast.If) and not st.orelse and len(st.body) == 1 and isinstance(st.body[0], ast.If) \
                        and not st.body[0].orelse:
                    def b13(st=st):
                        inner = st.body[0]
                        st.test = ast.BoolOp(op=ast.And(), values=[st.test, inner.test])
                        st.body = inner.body
                    out.append(("if-merge", fname, st.lineno, b13))
                # B13' split a conjunction into nested ifs
                if isinstance(st, ast.If) and not st.orelse and isinstance(st.test, ast.BoolOp) and isinstance(st.test.op, ast.And) \
                        and len(st.test.values) == 2:
                    def b13s(st=st):
                        a, b = st.test.values
                        st.body = [ast.If(test=b, body=st.body, orelse=[])]
                        st.test = a
                    out.append(("if-split", fname, st.lineno, b13s))
                # B16 dedent the else after an arm that always leaves the function
                if isinstance(st, ast.If) and st.orelse and always_returns(st.body) and i == len(blk) - 1:
                    def b16(st=st, blk=blk, i=i):
                        tail = st.orelse
                        st.orelse = []
                        blk[i + 1:i + 1] = tail
                    out.append(("else-dedent", fname, st.lineno, b16))
                # B4 return of a conditional expression as two returns
                if isinstance(st, ast.Return) and isinstance(st.value, ast.IfExp):
                    def b4(st=st, blk=blk, i=i):
                        e = st.value
                        blk[i:i + 1] = [ast.If(test=e.test, body=[ast.Return(value=e.body)], orelse=[]),
                                        ast.Return(value=e.orelse)]
                    out.append(("return-ifexp", fname, st.lineno, b4))
                # B5 a temporary before the return
                if isinstance(st, ast.Return) and st.value is not None and not isinstance(st.value, (ast.Name, ast.Constant)) \
                        and not any(isinstance(n, (ast.Yield, ast.YieldFrom, ast.Await)) for n in ast.walk(st.value)):
                    def b5(st=st, blk=blk, i=i):
                        blk[i:i + 1] = [ast.Assign(targets=[ast.Name(id="result_", ctx=ast.Store())], value=st.value, lineno=st.lineno),
                                        ast.Return(value=ast.Name(id="result_", ctx=ast.Load()))]
                    if not any(isinstance(n, ast.Name) and n.id == "result_" for n in ast.walk(fn)):
                        out.append(("return-temp", fname, st.lineno, b5))
                # B6 the temporary of `x = E ; return x` removed
                if isinstance(st, ast.Assign) and len(st.targets) == 1 and isinstance(st.targets[0], ast.Name) and i + 1 < len(blk) \
                        and isinstance(blk[i + 1], ast.Return) and isinstance(blk[i + 1].value, ast.Name) \
                        and blk[i + 1].value.id == st.targets[0].id and not nested:
                    nm = st.targets[0].id
                    if sum(1 for n in ast.walk(fn) if isinstance(n, ast.Name) and n.id == nm) == 2:
                        def b6(st=st, blk=blk, i=i):
                            blk[i:i + 2] = [ast.Return(value=st.value)]
                        out.append(("temp-removed", fname, st.lineno, b6))
                # B9 storing loop -> comprehension
                if isinstance(st, ast.Assign) and len(st.targets) == 1 and isinstance(st.targets[0], ast.Name) \
                        and isinstance(st.value, ast.List) and not st.value.elts and i + 1 < len(blk) \
                        and isinstance(blk[i + 1], ast.For) and not blk[i + 1].orelse and len(blk[i + 1].body) == 1:
                    nm, lp = st.targets[0].id, blk[i + 1]
                    b = lp.body[0]
                    if isinstance(b, ast.Expr) and isinstance(b.value, ast.Call) and isinstance(b.value.func, ast.Attribute) \
                            and b.value.func.attr == "append" and isinstance(b.value.func.value, ast.Name) \
                            and b.value.func.value.id == nm and len(b.value.args) == 1 and not b.value.keywords \
                            and not any(isinstance(n, ast.Name) and n.id == nm for n in ast.walk(b.value.args[0])) \
                            and not any(isinstance(n, ast.Name) and n.id == nm for n in ast.walk(lp.iter)) \
                            and not any(isinstance(n, (ast.Yield, ast.YieldFrom)) for n in ast.walk(lp)):
                        # the loop variable must not be read after the loop (a comprehension does not leak it)
                        tgt_names = {n.id for n in ast.walk(lp.target) if isinstance(n, ast.Name)}
                        later = [n for s2 in blk[i + 2:] for n in ast.walk(s2) if isinstance(n, ast.Name) and n.id in tgt_names]
                        other = [n for n in ast.walk(fn) if isinstance(n, ast.Name) and n.id in tgt_names]
                        inloop = [n for n in ast.walk(lp) if isinstance(n, ast.Name) and n.id in tgt_names]
                        if not later and len(other) == len(inloop):
                            def b9(st=st, blk=blk, i=i, lp=lp, b=b):
                                st.value = ast.ListComp(elt=b.value.args[0], generators=[
                                    ast.comprehension(target=lp.target, iter=lp.iter, ifs=[], is_async=0)])
                                del blk[i + 1]
                            out.append(("loop-to-comp", fname, st.lineno, b9))
                # B9' comprehension -> storing loop
                if isinstance(st, ast.Assign) and len(st.targets) == 1 and isinstance(st.targets[0], ast.Name) \
                        and isinstance(st.value, ast.ListComp) and len(st.value.generators) == 1 \
                        and not st.value.generators[0].is_async:
                    nm = st.targets[0].id
                    g = st.value.generators[0]
                    tgt_names = {n.id for n in ast.walk(g.target) if isinstance(n, ast.Name)}
                    # names of the comprehension must not exist in the function (the loop leaks them) and the target
                    # must not be read inside its own value
                    clash = [n for n in ast.walk(fn) if isinstance(n, (ast.Name, ast.arg)) and
                             (getattr(n, "id", None) or getattr(n, "arg", None)) in tgt_names and
                             n not in list(ast.walk(st.value))]
                    selfref = any(isinstance(n, ast.Name) and n.id == nm for n in ast.walk(st.value))
                    inner_scopes = any(isinstance(n, (ast.Lambda, ast.ListComp, ast.GeneratorExp, ast.SetComp, ast.DictComp))
                                       for n in ast.walk(st.value) if n is not st.value)
                    if not clash and not selfref and not inner_scopes:
                        def b9r(st=st, blk=blk, i=i, g=g, nm=nm):
                            body = ast.Expr(value=ast.Call(func=ast.Attribute(value=ast.Name(id=nm, ctx=ast.Load()), attr="append",
                                                                             ctx=ast.Load()), args=[st.value.elt], keywords=[]))
                            for cond in reversed(g.ifs):
                                body = ast.If(test=cond, body=[body], orelse=[])
                            loop = ast.For(target=g.target, iter=g.iter, body=[body], orelse=[], lineno=st.lineno)
                            for n in ast.walk(loop.target):
                                if isinstance(n, ast.Name):
                                    n.ctx = ast.Store()
                            st.value = ast.List(elts=[], ctx=ast.Load())
                            blk.insert(i + 1, loop)
                        out.append(("comp-to-loop", fname, st.lineno, b9r))
                # B15 a lambda bound to a name -> def
                if isinstance(st, ast.Assign) and len(st.targets) == 1 and isinstance(st.targets[0], ast.Name) \
                        and isinstance(st.value, ast.Lambda):
                    def b15(st=st, blk=blk, i=i):
                        blk[i] = ast.FunctionDef(name=st.targets[0].id, args=st.value.args, body=[ast.Return(value=st.value.body)],
                                                 decorator_list=[], returns=None, type_comment=None, lineno=st.lineno,
                                                 **({"type_params": []} if sys.version_info >= (3, 12) else {}))
                    out.append(("lambda-to-def", fname, st.lineno, b15))
                # B23 x = E  ->  x: object = E   (an annotated assignment of a plain local)
                if isinstance(st, ast.Assign) and len(st.targets) == 1 and isinstance(st.targets[0], ast.Name) \
                        and not any(isinstance(n, (ast.Global, ast.Nonlocal)) for n in ast.walk(fn)):
                    def b23(st=st, blk=blk, i=i):
                        blk[i] = ast.AnnAssign(target=st.targets[0], annotation=ast.Name(id="object", ctx=ast.Load()),
                                               value=st.value, simple=1, lineno=st.lineno)
                    out.append(("ann-assign", fname, st.lineno, b23))
                # B17 x = A if c else B  ->  if c: x = A  else: x = B
                if isinstance(st, ast.Assign) and len(st.targets) == 1 and isinstance(st.targets[0], ast.Name) \
                        and isinstance(st.value, ast.IfExp):
                    def b17(st=st, blk=blk, i=i):
                        e = st.value
                        mk = lambda v: ast.Assign(targets=[ast.Name(id=st.targets[0].id, ctx=ast.Store())], value=v, lineno=st.lineno)
                        blk[i] = ast.If(test=e.test, body=[mk(e.body)], orelse=[mk(e.orelse)])
                    out.append(("ifexp-to-if", fname, st.lineno, b17))
                # B18 if c: x = A  else: x = B  ->  x = A if c else B
                if isinstance(st, ast.If) and len(st.body) == 1 and len(st.orelse) == 1 \
                        and all(isinstance(a, ast.Assign) and len(a.targets) == 1 and isinstance(a.targets[0], ast.Name)
                                for a in (st.body[0], st.orelse[0])) and st.body[0].targets[0].id == st.orelse[0].targets[0].id:
                    def b18(st=st, blk=blk, i=i):
                        blk[i] = ast.Assign(targets=[ast.Name(id=st.body[0].targets[0].id, ctx=ast.Store())],
                                            value=ast.IfExp(test=st.test, body=st.body[0].value, orelse=st.orelse[0].value),
                                            lineno=st.lineno)
                    out.append(("if-to-ifexp", fname, st.lineno, b18))
                # B19 a = E1 ; b = E2  ->  a, b = E1, E2   (E2 does not read a, both sides effect-free)
                if isinstance(st, ast.Assign) and i + 1 < len(blk) and isinstance(blk[i + 1], ast.Assign) \
                        and all(len(a.targets) == 1 and isinstance(a.targets[0], ast.Name) for a in (st, blk[i + 1])):
                    a1, a2 = st, blk[i + 1]
                    n1, n2 = a1.targets[0].id, a2.targets[0].id
                    simple = lambda e: all(isinstance(x, (ast.Name, ast.Constant, ast.Attribute, ast.Load, ast.BinOp, ast.operator,
                                                          ast.UnaryOp, ast.unaryop, ast.Tuple, ast.List)) for x in ast.walk(e))
                    reads2 = {x.id for x in ast.walk(a2.value) if isinstance(x, ast.Name)}
                    if n1 != n2 and n1 not in reads2 and simple(a1.value) and simple(a2.value):
                        def b19(blk=blk, i=i, a1=a1, a2=a2):
                            blk[i:i + 2] = [ast.Assign(targets=[ast.Tuple(elts=[a1.targets[0], a2.targets[0]], ctx=ast.Store())],
                                                       value=ast.Tuple(elts=[a1.value, a2.value], ctx=ast.Load()), lineno=a1.lineno)]
                        out.append(("tuple-assign", fname, st.lineno, b19))
                # B20 a, b = E1, E2  ->  a = E1 ; b = E2   (E2 does not read a)
                if isinstance(st, ast.Assign) and len(st.targets) == 1 and isinstance(st.targets[0], ast.Tuple) \
                        and isinstance(st.value, ast.Tuple) and len(st.value.elts) == len(st.targets[0].elts) == 2 \
                        and all(isinstance(t, ast.Name) for t in st.targets[0].elts) \
                        and not any(isinstance(x, ast.Starred) for x in st.value.elts):
                    t1, t2 = st.targets[0].elts
                    reads2 = {x.id for x in ast.walk(st.value.elts[1]) if isinstance(x, ast.Name)}
                    pure1 = not any(isinstance(x, (ast.Call, ast.Yield, ast.YieldFrom, ast.Await)) for x in ast.walk(st.value))
                    if t1.id != t2.id and t1.id not in reads2 and pure1:
                        def b20(st=st, blk=blk, i=i, t1=t1, t2=t2):
                            blk[i:i + 1] = [ast.Assign(targets=[t1], value=st.value.elts[0], lineno=st.lineno),
                                            ast.Assign(targets=[t2], value=st.value.elts[1], lineno=st.lineno)]
                        out.append(("tuple-split", fname, st.lineno, b20))
                # B7 x = x + c  <->  x += c  for a numeric literal c
                if isinstance(st, ast.AugAssign) and isinstance(st.target, ast.Name) and isinstance(st.value, ast.Constant) \
                        and isinstance(st.value.value, (int, float)) and not isinstance(st.value.value, bool) \
                        and isinstance(st.op, (ast.Add, ast.Sub)):
                    def b7(st=st, blk=blk, i=i):
                        blk[i] = ast.Assign(targets=[ast.Name(id=st.target.id, ctx=ast.Store())],
                                            value=ast.BinOp(left=ast.Name(id=st.target.id, ctx=ast.Load()), op=st.op, right=st.value),
                                            lineno=st.lineno)
                    out.append(("augassign-expanded", fname, st.lineno, b7))
        # B25 a diagnostic line at the top of the function: logging.debug("...")  (the module gets `import logging`)
        def b25(fn=fn, tree=tree):
            k = 1 if fn.body and isinstance(fn.body[0], ast.Expr) and isinstance(fn.body[0].value, ast.Constant) \
                and isinstance(fn.body[0].value.value, str) else 0
            call = ast.Expr(value=ast.Call(func=ast.Attribute(value=ast.Name(id="logging", ctx=ast.Load()), attr="debug", ctx=ast.Load()),
                                           args=[ast.Constant(value="in %s" % fn.name)], keywords=[]))
            fn.body.insert(k, call)
            if not any(isinstance(st, ast.Import) and any(al.name == "logging" for al in st.names) for st in tree.body):
                pos = 1 if tree.body and isinstance(tree.body[0], ast.Expr) else 0
                while pos < len(tree.body) and isinstance(tree.body[pos], ast.ImportFrom) and tree.body[pos].module == "__future__":
                    pos += 1
                tree.body.insert(pos, ast.Import(names=[ast.alias(name="logging", asname=None)]))
        if not any(isinstance(n, ast.Name) and n.id == "logging" for n in ast.walk(fn)):
            out.append(("log-call", fname, fn.lineno, b25))
        # B26 a docstring for a function that has none
        if not (fn.body and isinstance(fn.body[0], ast.Expr) and isinstance(fn.body[0].value, ast.Constant)
                and isinstance(fn.body[0].value.value, str)):
            def b26(fn=fn):
                fn.body.insert(0, ast.Expr(value=ast.Constant(value=" %s (documented). " % fn.name)))
            out.append(("add-docstring", fname, fn.lineno, b26))
        # B24 annotate the plain parameters and the result of the function
        if fn.args.args and not any(a.annotation for a in fn.args.args) and fn.returns is None:
            def b24(fn=fn):
                for a in fn.args.args:
                    if a.arg not in ("self", "cls", "mcls"):
                        a.annotation = ast.Name(id="object", ctx=ast.Load())
                fn.returns = ast.Name(id="object", ctx=ast.Load())
            out.append(("ann-args", fname, fn.lineno, b24))
        # B2 De Morgan on `not (a and b)` / `not (a or b)`
        for n in ast.walk(fn):
            if isinstance(n, ast.UnaryOp) and isinstance(n.op, ast.Not) and isinstance(n.operand, ast.BoolOp):
                def b2(n=n):
                    bo = n.operand
                    new = ast.BoolOp(op=ast.Or() if isinstance(bo.op, ast.And) else ast.And(),
                                     values=[ast.UnaryOp(op=ast.Not(), operand=v) for v in bo.values])
                    n.op = ast.Not()
                    n.operand = ast.UnaryOp(op=ast.Not(), operand=new)      # not not (..): the same truth value
                out.append(("de-morgan", fname, n.lineno, b2))
        # B21 not (a in b)  <->  a not in b
        for n in ast.walk(fn):
            if isinstance(n, ast.UnaryOp) and isinstance(n.op, ast.Not) and isinstance(n.operand, ast.Compare) \
                    and len(n.operand.ops) == 1 and isinstance(n.operand.ops[0], (ast.In, ast.Is, ast.Eq)):
                def b21(n=n):
                    c = n.operand
                    flip = {ast.In: ast.NotIn, ast.Is: ast.IsNot, ast.Eq: ast.NotEq}[type(c.ops[0])]
                    # not (a OP b) -> (a NOP b) wrapped in `not not` to keep the node type; bool of a comparison of
                    # builtins only - Eq on overloaded operands is skipped
                    c.ops = [flip()]
                    n.operand = ast.UnaryOp(op=ast.Not(), operand=c)
                if not isinstance(n.operand.ops[0], ast.Eq):
                    out.append(("not-compare", fname, n.lineno, b21))
        # B22 rename the variable of a comprehension
        for n in ast.walk(fn):
            if isinstance(n, (ast.ListComp, ast.GeneratorExp, ast.SetComp)) and len(n.generators) == 1 \
                    and isinstance(n.generators[0].target, ast.Name):
                old_ = n.generators[0].target.id
                new_ = old_ + "_c"
                if any(isinstance(x, ast.Name) and x.id == new_ for x in ast.walk(fn)):
                    continue
                # the name must not be read inside the iterable (evaluated outside) nor shadow an outer use inside
                if any(isinstance(x, ast.Name) and x.id == old_ for x in ast.walk(n.generators[0].iter)):
                    continue
                if any(isinstance(x, (ast.Lambda, ast.ListComp, ast.GeneratorExp, ast.SetComp, ast.DictComp)) and x is not n
                       for x in ast.walk(n)):
                    continue

                def b22(n=n, old_=old_, new_=new_):
                    for x in ast.walk(n):
                        if isinstance(x, ast.Name) and x.id == old_:
                            x.id = new_
                out.append(("comp-var-rename", fname, n.lineno, b22))
        # B3 rename a local (functions without nested scopes only)
        if not nested and not uses_scope_tricks:
            params = {a.arg for a in fn.args.args + fn.args.kwonlyargs + fn.args.posonlyargs}
            if fn.args.vararg:
                params.add(fn.args.vararg.arg)
            if fn.args.kwarg:
                params.add(fn.args.kwarg.arg)
            stores = sorted({n.id for n in own_nodes(fn) if isinstance(n, ast.Name) and isinstance(n.ctx, ast.Store)} - params)
            imported = {(al.asname or al.name).split(".")[0] for n in ast.walk(fn) if isinstance(n, (ast.Import, ast.ImportFrom))
                        for al in n.names}
            handlers = {h.name for h in ast.walk(fn) if isinstance(h, ast.ExceptHandler) and h.name}
            for nm in stores:
                if nm in imported or nm in handlers or nm.startswith("__"):
                    continue
                new = nm + "_v"
                if any(isinstance(n, ast.Name) and n.id == new for n in ast.walk(fn)):
                    continue

                def b3(fn=fn, nm=nm, new=new):
                    for n in ast.walk(fn):
                        if isinstance(n, ast.Name) and n.id == nm:
                            n.id = new
                out.append(("rename-local", fname, fn.lineno, b3))
    return out


def make_variant(src, kind, fname, lineno, extra=()):
    """the source with the named rewrite applied (plus, for combined variants, the rewrites listed in ``extra`` - sites
    of other functions of the same file, applied on the same tree)"""
    tree = ast.parse(src)
    found = sites(tree)
    wanted = [(kind, fname, lineno)] + [tuple(x) for x in extra]
    done = 0
    for k, f, ln, thunk in found:
        if (k, f, ln) in wanted:
            thunk()
            wanted.remove((k, f, ln))
            done += 1
    if wanted and (kind, fname, lineno) in wanted:
        return None
    ast.fix_missing_locations(tree)
    return ast.unparse(tree) + "\n"


def run_variant(v, repo, scratch, props, keep_bad):
    vid = "%s.%s.%s.%d%s" % (v["file"][:-3], v["kind"], v["function"], v["line"], "+%d" % len(v["extra"]) if v.get("extra") else "")
    wt = os.path.join(scratch, vid)
    shutil.rmtree(wt, ignore_errors=True)
    os.makedirs(wt)
    try:
        shutil.copytree(os.path.join(repo, "audiolazy"), os.path.join(wt, "audiolazy"),
                        ignore=shutil.ignore_patterns("__pycache__", "*.pyc"))
        path = os.path.join(wt, "audiolazy", v["file"])
        new = make_variant(open(path).read(), v["kind"], v["function"], v["line"], v.get("extra", ()))
        if new is None:
            return dict(v, id=vid, outcome="skipped")
        open(path, "w").write(new)
        c = subprocess.run([sys.executable, "-W", "ignore", "-c", "import sys; sys.path.insert(0, %r); import audiolazy" % wt],
                           capture_output=True, text=True)
        if c.returncode != 0:
            return dict(v, id=vid, outcome="skipped", detail="variant does not import: " + c.stderr[-200:])
        bad = {}
        for pid in props:
            p = subprocess.run([sys.executable, os.path.join(VERIF, "check.py"), pid, "--repo", wt, "--no-write"],
                               capture_output=True, text=True, cwd=VERIF)
            if p.returncode != 0:
                lines = [ln.strip()[:300] for ln in p.stdout.splitlines() if ln.startswith(("ANALYSIS", "VIOLATION")) or
                         ln.strip().startswith(("rule=", "construct"))]
                bad[pid] = {"exit": p.returncode, "lines": lines[:8]}
        out = "silent" if not bad else ("FALSE-ALARM" if any(b["exit"] == 1 for b in bad.values()) else "gave-up")
        if bad and keep_bad:
            os.makedirs(keep_bad, exist_ok=True)
            shutil.copy(path, os.path.join(keep_bad, vid + ".py"))
        return dict(v, id=vid, outcome=out, bad=bad)
    finally:
        shutil.rmtree(wt, ignore_errors=True)


def main():
    ap = argparse.ArgumentParser()
    ap.add_argument("--jobs", type=int, default=8)
    ap.add_argument("--per-kind", type=int, default=25)
    ap.add_argument("--seed", type=int, default=1)
    ap.add_argument("--repo", default="/repo")
    ap.add_argument("--files", nargs="*")
    ap.add_argument("--props", nargs="*")
    ap.add_argument("--out")
    ap.add_argument("--keep-bad")
    ap.add_argument("--kinds", nargs="*", help="only these rewrite kinds")
    ap.add_argument("--combo", type=int, default=1, help="rewrites per variant (the others in other functions of the file)")
    a = ap.parse_args()
    import tempfile
    base_ = os.environ.get("VERIF_SCRATCH", "/var/tmp")
    os.makedirs(base_, exist_ok=True)
    scratch = tempfile.mkdtemp(prefix="verif-autobenign-", dir=base_)      # one per run: runs may overlap
    rnd = random.Random(a.seed)
    pool = {}
    pkg = os.path.join(a.repo, "audiolazy")
    for f in sorted(os.listdir(pkg)):
        if not f.endswith(".py") or f.startswith("__") or (a.files and f not in a.files):
            continue
        src = open(os.path.join(pkg, f)).read()
        for kind, fname, ln, _ in sites(ast.parse(src)):
            pool.setdefault(kind, []).append({"file": f, "kind": kind, "function": fname, "line": ln})
    if a.kinds:
        pool = {k: v for k, v in pool.items() if k in a.kinds}
    chosen = []
    for kind in sorted(pool):
        items = pool[kind]
        # one site per (file, function, line)
        seen, uniq = set(), []
        for it_ in items:
            k = (it_["file"], it_["function"], it_["line"])
            if k not in seen:
                seen.add(k)
                uniq.append(it_)
        rnd.shuffle(uniq)
        chosen.extend(uniq[:a.per_kind])
    if a.combo > 1:
        flat = [it_ for items in pool.values() for it_ in items]
        for v in chosen:
            others = [o for o in flat if o["file"] == v["file"] and o["function"] != v["function"]]
            rnd.shuffle(others)
            extra, used = [], {v["function"]}
            for o in others:
                if o["function"] not in used:
                    extra.append((o["kind"], o["function"], o["line"]))
                    used.add(o["function"])
                if len(extra) >= a.combo - 1:
                    break
            v["extra"] = extra
    props = a.props or ["C%02d" % i for i in range(1, 21)]
    print("sites per kind:", {k: len(v) for k, v in sorted(pool.items())}, "-> %d variants" % len(chosen))
    with ThreadPoolExecutor(a.jobs) as ex:
        res = list(ex.map(lambda v: run_variant(v, a.repo, scratch, props, a.keep_bad), chosen))
    tally = {}
    for r in res:
        tally[r["outcome"]] = tally.get(r["outcome"], 0) + 1
        if r["outcome"] not in ("silent", "skipped"):
            print("%-12s %s" % (r["outcome"], r["id"]))
            for pid, b in r["bad"].items():
                print("    %s exit %d  %s" % (pid, b["exit"], " | ".join(b["lines"][:3])[:400]))
    print("autobenign: %d variants: %s" % (len(res), ", ".join("%s=%d" % kv for kv in sorted(tally.items()))))
    if a.out:
        with open(a.out, "w") as fh:
            json.dump({"tally": tally, "results": res}, fh, indent=1)
    shutil.rmtree(scratch, ignore_errors=True)
    return 0


if __name__ == "__main__":
    sys.exit(main())
