#!/usr/bin/env python
"""Run every check on every behaviour-preserving patch of /verif/seeded-benign (produced by independent sub-agents that
saw only the property text; each patch keeps the pinned suite and the agent's own demonstration green).

usage: benign_eval.py [--jobs N] [--only B14-a ...] [--props C14 ...] [--out FILE]
Scratch copies of /repo are made under $VERIF_SCRATCH (default /var/tmp/verif-benign) and removed afterwards.
Exit status is always 0: this is a measurement, the result table goes to stdout / --out (JSON).
"""
import argparse
import json
import os
import shutil
import subprocess
import sys
from concurrent.futures import ThreadPoolExecutor

VERIF = os.path.dirname(os.path.dirname(os.path.abspath(__file__)))
CORPUS = os.path.join(VERIF, "seeded-benign")


def sh(cmd, cwd=None, timeout=900):
    p = subprocess.run(cmd, shell=True, cwd=cwd, capture_output=True, text=True, timeout=timeout)
    return p.returncode, p.stdout + p.stderr


def main():
    ap = argparse.ArgumentParser()
    ap.add_argument("--jobs", type=int, default=12)
    ap.add_argument("--only", nargs="*")
    ap.add_argument("--props", nargs="*")
    ap.add_argument("--repo", default="/repo")
    ap.add_argument("--out")
    a = ap.parse_args()
    scratch = os.environ.get("VERIF_SCRATCH", "/var/tmp/verif-benign")
    cases = sorted(d for d in os.listdir(CORPUS) if os.path.isfile(os.path.join(CORPUS, d, "patch.diff")))
    if a.only:
        cases = [c for c in cases if c in a.only]
    props = a.props or ["C%02d" % i for i in range(1, 21)]
    os.makedirs(scratch, exist_ok=True)
    py = sys.executable

    def one(case):
        wt = os.path.join(scratch, case)
        shutil.rmtree(wt, ignore_errors=True)
        os.makedirs(wt)
        sh("git -C %s archive HEAD audiolazy | tar -x -C %s" % (a.repo, wt))
        rc, o = sh("patch -p1 -s < %s" % os.path.join(CORPUS, case, "patch.diff"), wt)
        res = {"case": case, "apply": rc, "bad": []}
        if rc == 0:
            for p in props:
                rck, ok = sh("%s %s/check.py %s --repo %s --no-write" % (py, VERIF, p, wt), VERIF, 600)
                if rck != 0:
                    lines = [l.strip() for l in ok.splitlines() if l.startswith("ANALYSIS") or l.strip().startswith("rule=")]
                    res["bad"].append({"prop": p, "rc": rck, "lines": lines[:5]})
        shutil.rmtree(wt, ignore_errors=True)
        return res
    with ThreadPoolExecutor(a.jobs) as ex:
        results = list(ex.map(one, cases))
    clean = [r for r in results if r["apply"] == 0 and not r["bad"]]
    alarm = [r for r in results if any(b["rc"] == 1 for b in r["bad"])]
    undec = [r for r in results if r["bad"] and not any(b["rc"] == 1 for b in r["bad"])]
    for r in results:
        tag = "ok" if not r["bad"] else " ".join("%s=%d" % (b["prop"], b["rc"]) for b in r["bad"])
        print("%-8s %s" % (r["case"], tag if r["apply"] == 0 else "PATCH DOES NOT APPLY"))
    print("benign patches: %d, silent on all checks: %d, false VIOLATION: %d, analysis-error only: %d" % (
        len(results), len(clean), len(alarm), len(undec)))
    if a.out:
        json.dump(results, open(a.out, "w"), indent=1)
    try:
        os.rmdir(scratch)
    except OSError:
        pass


if __name__ == "__main__":
    main()
