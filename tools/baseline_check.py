#!/venv/bin/python
"""Run the repository's pinned test command (hooks guard OFF) and compare the
set of passing tests with /root/.vp/BASELINE.json `stable_pass`.
Exit 0 iff every stable_pass test still passes."""
import json, os, subprocess, sys, tempfile, xml.etree.ElementTree as ET

def main():
    base = json.load(open("/root/.vp/BASELINE.json"))
    fd, path = tempfile.mkstemp(suffix=".junit.xml", dir=os.environ.get("TMPDIR", "/var/tmp"))
    os.close(fd)
    env = dict(os.environ)
    env.pop("AUDIOLAZY_VERIF", None)
    cmd = base["cmd"].replace("<file>", path)
    subprocess.run(cmd, shell=True, env=env, stdout=subprocess.DEVNULL, stderr=subprocess.DEVNULL)
    passed = set()
    try:
        for tc in ET.parse(path).getroot().iter("testcase"):
            if not any(ch.tag in ("failure", "error", "skipped") for ch in tc):
                passed.add("%s::%s" % (tc.get("classname"), tc.get("name")))
    finally:
        os.unlink(path)
    want = set(base["stable_pass"])
    missing = sorted(want - passed)
    print("stable_pass=%d passed_now=%d missing=%d newly_passing=%d"
          % (len(want), len(passed), len(missing), len(passed - want)))
    for m in missing[:40]:
        print("  MISSING", m)
    return 1 if missing else 0

if __name__ == "__main__":
    sys.exit(main())
