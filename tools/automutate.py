#!/venv/bin/python
"""Automatic mutation sweep over the code the properties are anchored in (validation of the *checker* only).

For every property the `anchors.mechanism[].where` line ranges of /verif/properties.jsonl are mapped onto the current
source; every expression / statement inside them is mutated by a fixed operator set (comparison, arithmetic and boolean
operator swaps, constants +-1, negated tests, dropped statements, swapped arguments, break/continue, slice bounds,
range bounds).  Each mutant is one textual replacement of one node (the rest of the file keeps its text), written to
a scratch copy of the package under ${TMPDIR:-/var/tmp}; the property's check is run on it.

  phase 1 (default)   run the check on every mutant: exit 1 = reported, 2 = gave up, 0 = silent
  phase 2 (--tests)   run the pinned test suite on the silent ones: "killed" proves the mutant changes behaviour

Silent mutants are not automatically misses (many are equivalent, or change behaviour the property does not speak
about): they are the triage list.  Nothing here decides a property; /repo is never modified.

usage: automutate.py [--props C07 C08] [--per-prop 150] [--seed 1] [--jobs 16] [--tests] --out DIR
"""
import argparse
import ast
import hashlib
import json
import os
import random
import re
import shutil
import subprocess
import sys
import tempfile
import xml.etree.ElementTree as ET
from concurrent.futures import ThreadPoolExecutor

HERE = os.path.dirname(os.path.abspath(__file__))
VERIF = os.path.dirname(HERE)
REPO = "/repo"

CMP = {ast.Lt: ast.LtE, ast.LtE: ast.Lt, ast.Gt: ast.GtE, ast.GtE: ast.Gt, ast.Eq: ast.NotEq, ast.NotEq: ast.Eq,
       ast.Is: ast.IsNot, ast.IsNot: ast.Is, ast.In: ast.NotIn, ast.NotIn: ast.In}
CMP2 = {ast.Lt: ast.Gt, ast.Gt: ast.Lt, ast.LtE: ast.GtE, ast.GtE: ast.LtE}
BIN = {ast.Add: ast.Sub, ast.Sub: ast.Add, ast.Mult: ast.Div, ast.Div: ast.Mult, ast.FloorDiv: ast.Div,
       ast.Mod: ast.FloorDiv, ast.Pow: ast.Mult, ast.LShift: ast.RShift, ast.RShift: ast.LShift,
       ast.BitAnd: ast.BitOr, ast.BitOr: ast.BitAnd}


def ranges_of(prop):
    out = {}
    for m in prop["anchors"].get("mechanism", []):
        w = m.get("where", "")
        mm = re.match(r"([\w/\.]+\.py):(.*)", w)
        if not mm:
            continue
        for part in mm.group(2).split(","):
            part = part.strip()
            r = re.match(r"(\d+)\s*-\s*(\d+)", part)
            if r:
                out.setdefault(mm.group(1), []).append((int(r.group(1)), int(r.group(2))))
            elif part.isdigit():
                out.setdefault(mm.group(1), []).append((int(part), int(part)))
    return out


def line_offsets(src):
    offs = [0]
    for ln in src.splitlines(keepends=True):
        offs.append(offs[-1] + len(ln.encode("utf-8")))
    return offs


def seg(srcb, offs, node):
    a = offs[node.lineno - 1] + node.col_offset
    b = offs[node.end_lineno - 1] + node.end_col_offset
    return a, b


def mutations(node):
    """[(kind, replacement source)] for one node"""
    out = []
    cp = lambda n: ast.parse(ast.unparse(n), mode="eval").body if isinstance(n, ast.expr) else ast.parse(ast.unparse(n)).body[0]
    if isinstance(node, ast.Compare) and len(node.ops) == 1:
        for table, kind in ((CMP, "cmp-boundary"), (CMP2, "cmp-reverse")):
            t = table.get(type(node.ops[0]))
            if t:
                n2 = cp(node)
                n2.ops = [t()]
                out.append((kind, ast.unparse(n2)))
    if isinstance(node, ast.BinOp) and type(node.op) in BIN and not (
            isinstance(node.op, ast.Mod) and isinstance(node.left, ast.Constant) and isinstance(node.left.value, str)):
        if not (isinstance(node.left, ast.Constant) and isinstance(node.left.value, str)):
            n2 = cp(node)
            n2.op = BIN[type(node.op)]()
            out.append(("binop", ast.unparse(n2)))
        if not isinstance(node.op, (ast.Add, ast.Mult, ast.BitAnd, ast.BitOr)):
            n2 = cp(node)
            n2.left, n2.right = n2.right, n2.left
            out.append(("binop-swap", ast.unparse(n2)))
    if isinstance(node, ast.BoolOp):
        n2 = cp(node)
        n2.op = ast.Or() if isinstance(node.op, ast.And) else ast.And()
        out.append(("boolop", ast.unparse(n2)))
        if len(node.values) == 2:
            out.append(("boolop-drop", ast.unparse(node.values[0])))
            out.append(("boolop-drop", ast.unparse(node.values[1])))
    if isinstance(node, ast.UnaryOp) and isinstance(node.op, (ast.Not, ast.USub)):
        out.append(("unary-drop", ast.unparse(node.operand)))
    if isinstance(node, ast.Constant):
        v = node.value
        if v is True or v is False:
            out.append(("const-bool", repr(not v)))
        elif isinstance(v, int):
            out.append(("const+1", repr(v + 1)))
            out.append(("const-1", repr(v - 1)))
        elif isinstance(v, float):
            out.append(("const-float", repr(v * 2 if v * 2 != v else v + 1.0)))
        elif v is None:
            pass
    if isinstance(node, ast.Call):
        if len(node.args) >= 2 and not any(isinstance(a, ast.Starred) for a in node.args[:2]) \
                and ast.unparse(node.args[0]) != ast.unparse(node.args[1]):
            n2 = cp(node)
            n2.args[0], n2.args[1] = n2.args[1], n2.args[0]
            out.append(("arg-swap", ast.unparse(n2)))
        if isinstance(node.func, ast.Name) and node.func.id in ("range", "xrange") and node.args \
                and not isinstance(node.args[-1], ast.Constant):
            for d, k in (("+ 1", "range+1"), ("- 1", "range-1")):
                n2 = cp(node)
                i = 0 if len(n2.args) == 1 else 1
                n2.args[i] = ast.parse("(%s) %s" % (ast.unparse(n2.args[i]), d), mode="eval").body
                out.append((k, ast.unparse(n2)))
    if isinstance(node, ast.Subscript) and isinstance(node.slice, ast.Slice):
        s = node.slice
        for fld in ("lower", "upper"):
            if getattr(s, fld) is not None:
                n2 = cp(node)
                setattr(n2.slice, fld, None)
                out.append(("slice-open", ast.unparse(n2)))
    if isinstance(node, ast.IfExp):
        n2 = cp(node)
        n2.body, n2.orelse = n2.orelse, n2.body
        out.append(("ifexp-swap", ast.unparse(n2)))
    # laziness: a lazy construct made eager
    if isinstance(node, ast.GeneratorExp):
        out.append(("eager-genexp", ast.unparse(ast.ListComp(elt=node.elt, generators=node.generators))))
    if isinstance(node, ast.Call) and ast.unparse(node.func) in ("xmap", "xzip", "xfilter", "it.chain", "it.islice", "it.takewhile",
                                                                 "it.tee", "it.cycle", "it.repeat", "iter", "xzip_longest",
                                                                 "it.chain.from_iterable", "it.starmap", "it.dropwhile"):
        if ast.unparse(node.func) not in ("it.cycle", "it.repeat"):
            out.append(("eager-list", "iter(list(%s))" % ast.unparse(node)))
        if node.args and ast.unparse(node.func) != "it.repeat":
            n2 = cp(node)
            n2.args[-1] = ast.parse("list(%s)" % ast.unparse(n2.args[-1]), mode="eval").body
            out.append(("eager-arg", ast.unparse(n2)))
    return out


def stmt_mutations(node):
    out = []
    if isinstance(node, ast.Break):
        out.append(("break-continue", "continue"))
    if isinstance(node, ast.Continue):
        out.append(("break-continue", "break"))
    if isinstance(node, (ast.Expr, ast.AugAssign, ast.Delete)) and not (
            isinstance(node, ast.Expr) and isinstance(node.value, ast.Constant)):
        out.append(("stmt-drop", "pass"))
    if isinstance(node, ast.Expr) and isinstance(node.value, (ast.Yield,)) and node.value.value is not None:
        pass
    return out


def if_mutations(node):
    """negate the test of an if / while / ifexp: replacement of the test expression"""
    return [("test-negate", "not (%s)" % ast.unparse(node.test))]


def collect(path, rngs):
    src = open(path, encoding="utf-8").read()
    tree = ast.parse(src)
    offs = line_offsets(src)
    srcb = src.encode("utf-8")
    inside = lambda n: any(a - 2 <= n.lineno and n.end_lineno <= b + 6 for a, b in rngs)
    muts = []
    doc_ids = set()
    for n in ast.walk(tree):
        if isinstance(n, (ast.FunctionDef, ast.ClassDef, ast.Module, ast.AsyncFunctionDef)) and n.body \
                and isinstance(n.body[0], ast.Expr) and isinstance(n.body[0].value, ast.Constant):
            for x in ast.walk(n.body[0]):
                doc_ids.add(id(x))
    # decorators / defaults are part of the signature: mutate too, but not annotations
    for n in ast.walk(tree):
        if id(n) in doc_ids or not hasattr(n, "lineno") or not inside(n):
            continue
        if isinstance(n, ast.expr):
            for kind, rep in mutations(n):
                a, b = seg(srcb, offs, n)
                muts.append((kind, n.lineno, a, b, "(" + rep + ")"))
        if isinstance(n, ast.stmt):
            for kind, rep in stmt_mutations(n):
                a, b = seg(srcb, offs, n)
                muts.append((kind, n.lineno, a, b, rep))
        if isinstance(n, (ast.If, ast.While, ast.IfExp)):
            for kind, rep in if_mutations(n):
                a, b = seg(srcb, offs, n.test)
                muts.append((kind, n.lineno, a, b, "(" + rep + ")"))
    return srcb, muts


def enclosing_function(tree, lineno):
    best = None
    for n in ast.walk(tree):
        if isinstance(n, (ast.FunctionDef, ast.AsyncFunctionDef, ast.ClassDef)) and n.lineno <= lineno <= n.end_lineno:
            if best is None or n.lineno >= best.lineno:
                best = n
    return best.name if best else "<module>"


def run_check(prop, tmp):
    p = subprocess.run(["/venv/bin/python", os.path.join(VERIF, "check.py"), prop, "--repo", tmp, "--no-write",
                        "--tier", "quick"], capture_output=True, text=True)
    rules = sorted({ln.split("rule=")[1].split()[0] for ln in p.stdout.splitlines() if ln.strip().startswith("rule=")})
    tail = [ln for ln in p.stdout.splitlines() if ln.startswith(("ANALYSIS", "VIOLATION"))][:3]
    return p.returncode, rules, tail


def run_tests(tmp):
    base = json.load(open("/root/.vp/BASELINE.json"))
    fd, path = tempfile.mkstemp(suffix=".xml", dir=os.environ.get("TMPDIR", "/var/tmp"))
    os.close(fd)
    # tests that fail on the unchanged tree are deselected, so that -x (stop at the first failure) stops at the first
    # test the *mutant* breaks
    desel = ""
    bf = os.environ.get("AUTOMUTATE_BASELINE_FAILING")
    if bf and os.path.exists(bf):
        desel = " ".join("--deselect '%s'" % ln.strip() for ln in open(bf) if ln.strip())
    cmd = ("cd %s && PYTHONWARNINGS=ignore timeout 900 /venv/bin/python -m pytest -q -x -p no:cacheprovider --timeout=120 "
           "--continue-on-collection-errors %s --junitxml=%s" % (tmp, desel, path))
    subprocess.run(cmd, shell=True, stdout=subprocess.DEVNULL, stderr=subprocess.DEVNULL)
    passed = set()
    try:
        for tc in ET.parse(path).getroot().iter("testcase"):
            if not any(ch.tag in ("failure", "error", "skipped") for ch in tc):
                passed.add("%s::%s" % (tc.get("classname"), tc.get("name")))
    except Exception:
        pass
    failed = []
    try:
        for tc in ET.parse(path).getroot().iter("testcase"):
            if any(ch.tag in ("failure", "error") for ch in tc):
                failed.append("%s::%s" % (tc.get("classname"), tc.get("name")))
    except Exception:
        failed.append("<no junit report>")
    try:
        os.unlink(path)
    except OSError:
        pass
    return len(failed), failed[:3]


def one(job, with_tests, only_tests=False):
    prop, rel, kind, lineno, a, b, rep, srcb, func = job
    tmp = tempfile.mkdtemp(prefix="sa-auto-", dir=os.environ.get("TMPDIR", "/var/tmp"))
    res = {"prop": prop, "file": rel, "line": lineno, "func": func, "kind": kind,
           "old": srcb[a:b].decode("utf-8"), "new": rep}
    res["id"] = "%s:%s:%d:%s:%s" % (prop, os.path.basename(rel), lineno, kind,
                                    hashlib.sha1((res["old"] + "->" + rep + str(a)).encode()).hexdigest()[:6])
    try:
        shutil.copytree(os.path.join(REPO, "audiolazy"), os.path.join(tmp, "audiolazy"),
                        ignore=shutil.ignore_patterns("__pycache__", "*.pyc") if with_tests else
                        shutil.ignore_patterns("__pycache__", "tests", "*.pyc"))
        new = srcb[:a] + rep.encode("utf-8") + srcb[b:]
        try:
            ast.parse(new.decode("utf-8"))
        except SyntaxError:
            res["outcome"] = "no-compile"
            return res
        open(os.path.join(tmp, rel), "wb").write(new)
        if not only_tests:
            rc, rules, tail = run_check(prop, tmp)
            res.update(exit=rc, rules=rules, tail=tail,
                       outcome={0: "silent", 1: "reported", 2: "gave-up"}.get(rc, "crash"))
        if with_tests:
            for extra in ("setup.py", "setup.cfg", "conftest.py", "tox.ini", "pytest.ini", "README.rst", "CHANGES.rst"):
                if os.path.exists(os.path.join(REPO, extra)):
                    shutil.copy(os.path.join(REPO, extra), tmp)
            nbroken, which = run_tests(tmp)
            res["tests_broken"] = nbroken
            res["tests_which"] = which
    finally:
        shutil.rmtree(tmp, ignore_errors=True)
    return res


def main():
    ap = argparse.ArgumentParser()
    ap.add_argument("--props", nargs="*")
    ap.add_argument("--per-prop", type=int, default=150)
    ap.add_argument("--kinds", nargs="*", help="only these mutation kinds")
    ap.add_argument("--seed", type=int, default=1)
    ap.add_argument("--jobs", type=int, default=16)
    ap.add_argument("--tests", action="store_true", help="phase 2: run the pinned suite on the silent mutants of --out")
    ap.add_argument("--cross", action="store_true", help="run the checks of the other properties anchored in the same file on the silent mutants")
    ap.add_argument("--recheck", action="store_true", help="re-run the check on the silent / gave-up mutants of --out")
    ap.add_argument("--out", required=True)
    args = ap.parse_args()
    os.makedirs(args.out, exist_ok=True)
    resfile = os.path.join(args.out, "phase1.json")
    if args.cross:
        # a mutant in a function several properties are anchored in: is it reported by *any* of their checks?
        prev = json.load(open(resfile))
        rc_file = os.path.join(args.out, "recheck.json")
        rc = json.load(open(rc_file)) if os.path.exists(rc_file) else {}
        props = [json.loads(l) for l in open(os.path.join(VERIF, "properties.jsonl"))]
        by_file = {}
        for p_ in props:
            for f_ in p_["anchors"].get("files", []):
                by_file.setdefault(f_, []).append(p_["id"])
        sel = [r for r in prev if rc.get(r["id"], r)["outcome"] == "silent" and (not args.props or r["prop"] in args.props)]
        seen = {}
        jobs = []
        for r in sel:
            key = (r["file"], r["_a"], r["_b"], r["new"])
            if key in seen:
                continue
            seen[key] = r
            for q in by_file.get(r["file"], []):
                if q != r["prop"]:
                    jobs.append((q, r["file"], r["kind"], r["line"], r["_a"], r["_b"], r["new"],
                                 open(os.path.join(REPO, r["file"]), "rb").read(), r["func"]))
        with ThreadPoolExecutor(args.jobs) as ex:
            out = list(ex.map(lambda j: one(j, False), jobs))
        cross = {}
        for j, o in zip(jobs, out):
            key = "%s|%d|%d|%s" % (j[1], j[4], j[5], j[6])
            cross.setdefault(key, {})[j[0]] = o["outcome"]
        json.dump(cross, open(os.path.join(args.out, "cross.json"), "w"), indent=1)
        n_rep = sum(1 for v in cross.values() if "reported" in v.values())
        print("distinct silent mutants: %d; reported by the check of another property: %d" % (len(seen), n_rep))
        return 0
    if args.recheck:
        prev = json.load(open(resfile))
        sel = [r for r in prev if r["outcome"] in ("silent", "gave-up") and (not args.props or r["prop"] in args.props)]
        jobs = [(r["prop"], r["file"], r["kind"], r["line"], r["_a"], r["_b"], r["new"],
                 open(os.path.join(REPO, r["file"]), "rb").read(), r["func"]) for r in sel]
        with ThreadPoolExecutor(args.jobs) as ex:
            out = list(ex.map(lambda j: one(j, False), jobs))
        rc_file = os.path.join(args.out, "recheck.json")
        old_rc = json.load(open(rc_file)) if os.path.exists(rc_file) else {}
        for r in out:
            old_rc[r["id"]] = {"outcome": r["outcome"], "rules": r.get("rules"), "tail": r.get("tail")}
        json.dump(old_rc, open(rc_file, "w"), indent=1)
        tally = {}
        for r0, r in zip(sel, out):
            k = "%s -> %s" % (r0["outcome"], r["outcome"])
            tally[k] = tally.get(k, 0) + 1
            if r["outcome"] != "reported":
                print("%-8s %s %s:%d %s | %s -> %s %s" % (r["outcome"], r["prop"], r["func"], r["line"], r["kind"],
                                                        r["old"][:60].replace("\n", " "), r["new"][:60].replace("\n", " "),
                                                        (r.get("tail") or [""])[0][:100] if r["outcome"] == "gave-up" else ""))
        print(tally)
        return 0
    if args.tests:
        prev = json.load(open(resfile))
        rc_file = os.path.join(args.out, "recheck.json")
        rc = json.load(open(rc_file)) if os.path.exists(rc_file) else {}
        for r in prev:
            r.pop("tests_broken", None)
            r.pop("tests_which", None)
            if r["id"] in rc:
                r["outcome_now"] = rc[r["id"]]["outcome"]
        silent = [r for r in prev if r.get("outcome_now", r["outcome"]) == "silent"]
        jobs = []
        for r in silent:
            srcb = open(os.path.join(REPO, r["file"]), "rb").read()
            a = r["_a"]
            b = r["_b"]
            jobs.append((r["prop"], r["file"], r["kind"], r["line"], a, b, r["new"], srcb, r["func"]))
        with ThreadPoolExecutor(args.jobs) as ex:
            out = list(ex.map(lambda j: one(j, True, only_tests=True), jobs))
        by = {r["id"]: r for r in out}
        for r in prev:
            if r["id"] in by:
                r["tests_broken"] = by[r["id"]].get("tests_broken")
                r["tests_which"] = by[r["id"]].get("tests_which")
        json.dump(prev, open(resfile, "w"), indent=1)
        k = sum(1 for r in prev if r.get("tests_broken"))
        s = sum(1 for r in prev if r.get("tests_broken") == 0)
        print("silent mutants: %d killed by the pinned suite, %d survive it" % (k, s))
        return 0
    props = [json.loads(l) for l in open(os.path.join(VERIF, "properties.jsonl"))]
    rnd = random.Random(args.seed)
    jobs = []
    for p in props:
        if args.props and p["id"] not in args.props:
            continue
        cand = []
        for rel, rngs in ranges_of(p).items():
            path = os.path.join(REPO, rel)
            if not os.path.exists(path):
                continue
            srcb, muts = collect(path, rngs)
            tree = ast.parse(srcb.decode("utf-8"))
            for kind, lineno, a, b, rep in muts:
                if args.kinds and kind not in args.kinds:
                    continue
                cand.append((p["id"], rel, kind, lineno, a, b, rep, srcb, enclosing_function(tree, lineno)))
        rnd.shuffle(cand)
        # spread over kinds: round-robin by kind
        bykind = {}
        for c in cand:
            bykind.setdefault(c[2], []).append(c)
        pick = []
        while len(pick) < args.per_prop and any(bykind.values()):
            for k in sorted(bykind):
                if bykind[k] and len(pick) < args.per_prop:
                    pick.append(bykind[k].pop())
        print("%s: %d candidate mutants, %d taken" % (p["id"], len(cand), len(pick)))
        jobs.extend(pick)
    with ThreadPoolExecutor(args.jobs) as ex:
        out = list(ex.map(lambda j: one(j, False), jobs))
    for r, j in zip(out, jobs):
        r["_a"], r["_b"] = j[4], j[5]
    json.dump(out, open(resfile, "w"), indent=1)
    tally = {}
    for r in out:
        tally.setdefault(r["prop"], {}).setdefault(r["outcome"], 0)
        tally[r["prop"]][r["outcome"]] += 1
    for p in sorted(tally):
        print(p, tally[p])
    return 0


if __name__ == "__main__":
    sys.exit(main())
