#!/venv/bin/python
"""Regenerate MANIFEST.json from the table below (kept in one place so that the
manifest is always valid and current)."""
import json, os, sys
HERE = os.path.dirname(os.path.dirname(os.path.abspath(__file__)))
sys.path.insert(0, HERE)
from sa.manifest_table import CHECKS, NOT_APPLICABLE, ENGINES  # noqa

def main():
    checks = []
    for pid, d in sorted(CHECKS.items()):
        checks.append({
            "property_id": pid,
            "quick_cmd": "/venv/bin/python /verif/check.py %s --tier quick" % pid,
            "thorough_cmd": "/venv/bin/python /verif/check.py %s --tier thorough" % pid,
            "evidence_file": "/verif/evidence/%s.json" % pid,
            "replay_cmd_template": "/venv/bin/python /verif/check.py --replay {path}",
            "engine": "sa",
            "level_claimed": {"category": "other", "text": d["text"], "design_ref": d.get("ref", "DESIGN.md section 4 / %s" % pid)},
            "level_note": d["note"],
            "technique": d["technique"],
        })
    man = {
        "version": 1,
        "setup_cmd": "/venv/bin/python -c \"import ast, sys; assert sys.version_info >= (3, 8)\"",
        "hooks": {"guard": "AUDIOLAZY_VERIF", "enable": "none: the checks read the source, nothing in /repo is instrumented",
                  "baseline_off_cmd": "/venv/bin/python /verif/tools/baseline_check.py",
                  "source_commits": [], "add_only": True},
        "engines": ENGINES,
        "checks": checks,
        "notes": "Static analysis only: every check parses /repo/audiolazy/*.py on each run (ast), never imports or "
                 "executes repository code. Exit 2 + ANALYSIS-ERROR = cannot decide (anchor vanished / idiom outside the "
                 "analysable fragment). Genuine defects found on the pinned tree were repaired by 'fix:' commits in /repo; "
                 "see known_findings.json ('fixed' entries) and DESIGN.md section 5.",
        "not_applicable": [{"property_id": k, "reason": v} for k, v in sorted(NOT_APPLICABLE.items())],
    }
    with open(os.path.join(HERE, "MANIFEST.json"), "w") as f:
        json.dump(man, f, indent=1)
    print("MANIFEST.json: %d checks, %d not_applicable" % (len(checks), len(NOT_APPLICABLE)))

if __name__ == "__main__":
    main()
