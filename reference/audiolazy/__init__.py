# -*- coding: utf-8 -*-
# This file is part of AudioLazy, the signal processing Python package.
# Copyright (C) 2012-2016 Danilo de Jesus da Silva Bellini
#
# AudioLazy is free software: you can redistribute it and/or modify
# it under the terms of the GNU General Public License as published by
# the Free Software Foundation, version 3 of the License.
#
# This program is distributed in the hope that it will be useful,
# but WITHOUT ANY WARRANTY; without even the implied warranty of
# MERCHANTABILITY or FITNESS FOR A PARTICULAR PURPOSE. See the
# GNU General Public License for more details.
#
# You should have received a copy of the GNU General Public License
# along with this program. If not, see <http://www.gnu.org/licenses/>.
"""
AudioLazy package

This is the main package file, that already imports all modules into the
system. As the full name might not be small enough for typing it everywhere,
you can import with a helpful alias:

  >>> import audiolazy as lz
  >>> lz.Stream(1, 3, 2).take(8)
  [1, 3, 2, 1, 3, 2, 1, 3]

But there's some parts of the code you probably will find it cleaner to import
directly, like the ``z`` object:

  >>> from audiolazy import z, Stream
  >>> filt = 1 / (1 - z ** -1) # Accumulator linear filter
  >>> filt(Stream(1, 3, 2), zero=0).take(8)
  [1, 4, 6, 7, 10, 12, 13, 16]

For a single use within a console or for trying some new experimental ideas
(perhaps with IPython), you would perhaps find easier to import the full
package contents:

  >>> from audiolazy import *
  >>> s, Hz = sHz(44100)
  >>> delay_a4 = freq2lag(440 * Hz)
  >>> filt = ParallelFilter(comb.tau(delay_a4, 20 * s),
  ...                       resonator(440 * Hz, bandwidth=100 * Hz)
  ...                      )
  >>> len(filt)
  2

There's documentation inside the package classes and functions docstrings.
If you try ``dir(audiolazy)`` [or ``dir(lz)``] after importing it [with the
suggested alias], you'll see all the package contents, and the names starting
with ``lazy`` followed by an underscore are modules. If you're starting now,
try to see the docstring from the Stream and ZFilter classes with the
``help(lz.Stream)`` and ``help(lz.ZFilter)`` commands, and then the help from
the other functionalities used above. If you didn't know the ``dir`` and
``help`` built-ins before reading this, it's strongly suggested you to read
first a Python documentation or tutorial, at least enough for you to
understand the basic behaviour and syntax of ``for`` loops, iterators,
iterables, lists, generators, list comprehensions and decorators.

This package was created by Danilo J. S. Bellini and is a free software,
under the terms of the GPLv3.
"""

# Some dunders and summary docstrings initialization
__modules__, __all__, __doc__ = \
  __import__(__name__ + "._internals", fromlist=[__name__]
            ).init_package(__path__, __name__, __doc__)

# Import all modules contents to the main namespace
exec(("from .{} import *\n" * len(__modules__)).format(*__modules__))

# Metadata (used by setup.py); Should use only local assignments!
__version__ = "0.6.1dev"
__author__ = "Danilo de Jesus da Silva Bellini"
__author_email__  = "danilo.bellini@gmail.com"
__url__ = "http://github.com/danilobellini/audiolazy"
