# -*- coding: utf-8 -*-
# This file is part of AudioLazy, the signal processing Python package.
# Copyright (C) 2012-2016 Danilo de Jesus da Silva Bellini
#
# AudioLazy is free software: you can redistribute it and/or modify
# it under the terms of the GNU General Public License as published by
# the Free Software Foundation, version 3 of the License.
#
# This program is distributed in the hope that it will be useful,
# but WITHOUT ANY WARRANTY; without even the implied warranty of
# MERCHANTABILITY or FITNESS FOR A PARTICULAR PURPOSE. See the
# GNU General Public License for more details.
#
# You should have received a copy of the GNU General Public License
# along with this program. If not, see <http://www.gnu.org/licenses/>.
"""
Math modules "decorated" and complemented to work elementwise when needed
"""

import math
import cmath
import operator
import itertools as it
from functools import reduce

# Audiolazy internal imports
from .lazy_misc import elementwise
from .lazy_compat import INT_TYPES

__all__ = ["absolute", "pi", "e", "cexp", "ln", "log", "log1p", "log10",
           "log2", "factorial", "dB10", "dB20", "inf", "nan", "phase", "sign"]

# All functions from math with one numeric input
_math_names = ["acos", "acosh", "asin", "asinh", "atan", "atanh", "ceil",
               "cos", "cosh", "degrees", "erf", "erfc", "exp", "expm1",
               "fabs", "floor", "frexp", "gamma", "isinf", "isnan", "lgamma",
               "modf", "radians", "sin", "sinh", "sqrt", "tan", "tanh",
               "trunc"]
__all__.extend(_math_names)


for func in [getattr(math, name) for name in _math_names]:
  locals()[func.__name__] = elementwise("x", 0)(func)


@elementwise("x", 0)
def log(x, base=None):
  if base is None:
    if x == 0:
      return -inf
    elif isinstance(x, complex) or x < 0:
      return cmath.log(x)
    else:
      return math.log(x)
  else: # base is given
    if base <= 0 or base == 1:
      raise ValueError("Not a valid logarithm base")
    elif x == 0:
      return -inf
    elif isinstance(x, complex) or x < 0:
      return cmath.log(x, base)
    else:
      return math.log(x, base)


@elementwise("x", 0)
def log1p(x):
  if x == -1:
    return -inf
  elif isinstance(x, complex) or x < -1:
    return cmath.log(1 + x)
  else:
    return math.log1p(x)


def log10(x):
  return log(x, 10)


def log2(x):
  return log(x, 2)


ln = log
absolute = elementwise("number", 0)(abs)
pi = math.pi
e = math.e
cexp = elementwise("x", 0)(cmath.exp)
inf = float("inf")
nan = float("nan")
phase = elementwise("z", 0)(cmath.phase)


@elementwise("n", 0)
def factorial(n):
  """
  Factorial function that works with really big numbers.
  """
  if isinstance(n, float):
    if n.is_integer():
      n = int(n)
  if not isinstance(n, INT_TYPES):
    raise TypeError("Non-integer input (perhaps you need Euler Gamma "
                    "function or Gauss Pi function)")
  if n < 0:
    raise ValueError("Input shouldn't be negative")
  return reduce(operator.mul,
                it.takewhile(lambda m: m <= n, it.count(2)),
                1)


@elementwise("data", 0)
def dB10(data):
  """
  Convert a gain value to dB, from a squared amplitude value to a power gain.
  """
  return 10 * math.log10(abs(data)) if data != 0 else -inf


@elementwise("data", 0)
def dB20(data):
  """
  Convert a gain value to dB, from an amplitude value to a power gain.
  """
  return 20 * math.log10(abs(data)) if data != 0 else -inf


@elementwise("x", 0)
def sign(x):
  """
  Signal of ``x``: 1 if positive, -1 if negative, 0 otherwise.
  """
  return +(x > 0) or -(x < 0)
