# -*- coding: utf-8 -*-
# This file is part of AudioLazy, the signal processing Python package.
# Copyright (C) 2012-2016 Danilo de Jesus da Silva Bellini
#
# AudioLazy is free software: you can redistribute it and/or modify
# it under the terms of the GNU General Public License as published by
# the Free Software Foundation, version 3 of the License.
#
# This program is distributed in the hope that it will be useful,
# but WITHOUT ANY WARRANTY; without even the implied warranty of
# MERCHANTABILITY or FITNESS FOR A PARTICULAR PURPOSE. See the
# GNU General Public License for more details.
#
# You should have received a copy of the GNU General Public License
# along with this program. If not, see <http://www.gnu.org/licenses/>.
"""
AudioLazy internals module

The resources found here aren't DSP related nor take part of the main
``audiolazy`` namespace. Unless you're changing or trying to understand
the AudioLazy internals, you probably don't need to know about this.
"""

from functools import wraps, reduce
from warnings import warn
from glob import glob
from operator import concat
import os


def deprecate(func):
  """ A deprecation warning emmiter as a decorator. """
  @wraps(func)
  def wrapper(*args, **kwargs):
    warn("Deprecated, this will be removed in the future", DeprecationWarning)
    return func(*args, **kwargs)
  wrapper.__doc__ = "Deprecated.\n" + (wrapper.__doc__ or "")
  return wrapper


#
# __init__.py importing resources
#

def get_module_names(package_path, pattern="lazy_*.py*"):
  """
  All names in the package directory that matches the given glob, without
  their extension. Repeated names should appear only once.
  """
  package_contents = glob(os.path.join(package_path[0], pattern))
  relative_path_names = (os.path.split(name)[1] for name in package_contents)
  no_ext_names = (os.path.splitext(name)[0] for name in relative_path_names)
  return sorted(set(no_ext_names))

def get_modules(package_name, module_names):
  """ List of module objects from the package, keeping the name order. """
  def get_module(name):
    return __import__(".".join([package_name, name]), fromlist=[package_name])
  return [get_module(name) for name in module_names]

def dunder_all_concat(modules):
  """ Single list with all ``__all__`` lists from the modules. """
  return reduce(concat, (getattr(m, "__all__", []) for m in modules), [])


#
# Resources for module/package summary tables on doctring
#

def summary_table(pairs, key_header, descr_header="Description", width=78):
  """
  List of one-liner strings containing a reStructuredText summary table
  for the given pairs ``(name, object)``.
  """
  from .lazy_text import rst_table, small_doc
  max_width = width - max(len(k) for k, v in pairs)
  table = [(k, small_doc(v, max_width=max_width)) for k, v in pairs]
  return rst_table(table, (key_header, descr_header))

def docstring_with_summary(docstring, pairs, key_header, summary_type):
  """ Return a string joining the docstring with the pairs summary table. """
  return "\n".join(
    [docstring, "Summary of {}:".format(summary_type), ""] +
    summary_table(pairs, key_header) + [""]
  )

def append_summary_to_module_docstring(module):
  """
  Change the ``module.__doc__`` docstring to include a summary table based
  on its contents as declared on ``module.__all__``.
  """
  pairs = [(name, getattr(module, name)) for name in module.__all__]
  kws = dict(key_header="Name", summary_type="module contents")
  module.__doc__ = docstring_with_summary(module.__doc__, pairs, **kws)


#
# Package initialization, first function to be called internally
#

def init_package(package_path, package_name, docstring):
  """
  Package initialization, to be called only by ``__init__.py``.

  - Find all module names;
  - Import all modules (so they're already cached on sys.modules), in
    the sorting order (this might make difference on cyclic imports);
  - Update all module docstrings (with the summary of its contents);
  - Build a module summary for the package docstring.

  Returns
  -------
  A 4-length tuple ``(modules, __all__, __doc__)``. The first one can be
  used by the package to import every module into the main package namespace.
  """
  module_names = get_module_names(package_path)
  modules = get_modules(package_name, module_names)
  dunder_all = dunder_all_concat(modules)
  for module in modules:
    append_summary_to_module_docstring(module)
  pairs = list(zip(module_names, modules))
  kws = dict(key_header="Module", summary_type="package modules")
  new_docstring = docstring_with_summary(docstring, pairs, **kws)
  return module_names, dunder_all, new_docstring
