# -*- coding: utf-8 -*-
# This file is part of AudioLazy, the signal processing Python package.
# Copyright (C) 2012-2016 Danilo de Jesus da Silva Bellini
#
# AudioLazy is free software: you can redistribute it and/or modify
# it under the terms of the GNU General Public License as published by
# the Free Software Foundation, version 3 of the License.
#
# This program is distributed in the hope that it will be useful,
# but WITHOUT ANY WARRANTY; without even the implied warranty of
# MERCHANTABILITY or FITNESS FOR A PARTICULAR PURPOSE. See the
# GNU General Public License for more details.
#
# You should have received a copy of the GNU General Public License
# along with this program. If not, see <http://www.gnu.org/licenses/>.
"""
MIDI representation data & note-frequency relationship
"""

import itertools as it

# Audiolazy internal imports
from .lazy_misc import elementwise
from .lazy_math import log2, nan, isinf, isnan

__all__ = ["MIDI_A4", "FREQ_A4", "SEMITONE_RATIO", "str2freq",
           "str2midi", "freq2str", "freq2midi", "midi2freq", "midi2str",
           "octaves"]

# Useful constants
MIDI_A4 = 69   # MIDI Pitch number
FREQ_A4 = 440. # Hz
SEMITONE_RATIO = 2. ** (1. / 12.) # Ascending


@elementwise("midi_number", 0)
def midi2freq(midi_number):
  """
  Given a MIDI pitch number, returns its frequency in Hz.
  """
  return FREQ_A4 * 2 ** ((midi_number - MIDI_A4) * (1./12.))


@elementwise("note_string", 0)
def str2midi(note_string):
  """
  Given a note string name (e.g. "Bb4"), returns its MIDI pitch number.
  """
  if note_string == "?":
    return nan
  data = note_string.strip().lower()
  name2delta = {"c": -9, "d": -7, "e": -5, "f": -4, "g": -2, "a": 0, "b": 2}
  accident2delta = {"b": -1, "#": 1, "x": 2}
  accidents = list(it.takewhile(lambda el: el in accident2delta, data[1:]))
  octave_delta = int(data[len(accidents) + 1:]) - 4
  return (MIDI_A4 +
          name2delta[data[0]] + # Name
          sum(accident2delta[ac] for ac in accidents) + # Accident
          12 * octave_delta # Octave
         )


def str2freq(note_string):
  """
  Given a note string name (e.g. "F#2"), returns its frequency in Hz.
  """
  return midi2freq(str2midi(note_string))


@elementwise("freq", 0)
def freq2midi(freq):
  """
  Given a frequency in Hz, returns its MIDI pitch number.
  """
  result = 12 * (log2(freq) - log2(FREQ_A4)) + MIDI_A4
  return nan if isinstance(result, complex) else result


@elementwise("midi_number", 0)
def midi2str(midi_number, sharp=True):
  """
  Given a MIDI pitch number, returns its note string name (e.g. "C3").
  """
  if isinf(midi_number) or isnan(midi_number):
    return "?"
  num = midi_number - (MIDI_A4 - 4 * 12 - 9)
  note = (num + .5) % 12 - .5
  rnote = int(round(note))
  error = note - rnote
  octave = str(int(round((num - note) / 12.)))
  if sharp:
    names = ["C", "C#", "D", "D#", "E", "F", "F#", "G", "G#", "A", "A#", "B"]
  else:
    names = ["C", "Db", "D", "Eb", "E", "F", "Gb", "G", "Ab", "A", "Bb", "B"]
  names = names[rnote] + octave
  if abs(error) < 1e-4:
    return names
  else:
    err_sig = "+" if error > 0 else "-"
    err_str = err_sig + str(round(100 * abs(error), 2)) + "%"
    return names + err_str


def freq2str(freq):
  """
  Given a frequency in Hz, returns its note string name (e.g. "D7").
  """
  return midi2str(freq2midi(freq))


def octaves(freq, fmin=20., fmax=2e4):
  """
  Given a frequency and a frequency range, returns all frequencies in that
  range that is an integer number of octaves related to the given frequency.

  Parameters
  ----------
  freq :
    Frequency, in any (linear) unit.
  fmin, fmax :
    Frequency range, in the same unit of ``freq``. Defaults to 20.0 and
    20,000.0, respectively.

  Returns
  -------
  A list of frequencies, in the same unit of ``freq`` and in ascending order.

  Examples
  --------
  >>> from audiolazy import octaves, sHz
  >>> octaves(440.)
  [27.5, 55.0, 110.0, 220.0, 440.0, 880.0, 1760.0, 3520.0, 7040.0, 14080.0]
  >>> octaves(440., fmin=3000)
  [3520.0, 7040.0, 14080.0]
  >>> Hz = sHz(44100)[1] # Conversion unit from sample rate
  >>> freqs = octaves(440 * Hz, fmin=300 * Hz, fmax = 1000 * Hz) # rad/sample
  >>> len(freqs) # Number of octaves
  2
  >>> [round(f, 6) for f in freqs] # Values in rad/sample
  [0.062689, 0.125379]
  >>> [round(f / Hz, 6) for f in freqs] # Values in Hz
  [440.0, 880.0]

  """
  # Input validation
  if any(f <= 0 for f in (freq, fmin, fmax)):
    raise ValueError("Frequencies have to be positive")

  # If freq is out of range, avoid range extension
  while freq < fmin:
    freq *= 2
  while freq > fmax:
    freq /= 2
  if freq < fmin: # Gone back and forth
    return []

  # Finds the range for a valid input
  return list(it.takewhile(lambda x: x > fmin,
                           (freq * 2 ** harm for harm in it.count(0, -1))
                          ))[::-1] \
       + list(it.takewhile(lambda x: x < fmax,
                           (freq * 2 ** harm for harm in it.count(1))
                          ))
