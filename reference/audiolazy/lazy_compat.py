# -*- coding: utf-8 -*-
# This file is part of AudioLazy, the signal processing Python package.
# Copyright (C) 2012-2016 Danilo de Jesus da Silva Bellini
#
# AudioLazy is free software: you can redistribute it and/or modify
# it under the terms of the GNU General Public License as published by
# the Free Software Foundation, version 3 of the License.
#
# This program is distributed in the hope that it will be useful,
# but WITHOUT ANY WARRANTY; without even the implied warranty of
# MERCHANTABILITY or FITNESS FOR A PARTICULAR PURPOSE. See the
# GNU General Public License for more details.
#
# You should have received a copy of the GNU General Public License
# along with this program. If not, see <http://www.gnu.org/licenses/>.
"""
Compatibility tools to keep the same source working in both Python 2 and 3
"""

import types
import itertools as it
import sys

__all__ = ["orange", "PYTHON2", "builtins", "xrange", "xzip", "xzip_longest",
           "xmap", "xfilter", "STR_TYPES", "INT_TYPES", "SOME_GEN_TYPES",
           "NEXT_NAME", "iteritems", "itervalues", "im_func", "meta"]


def orange(*args, **kwargs):
  """
  Old Python 2 range (returns a list), working both in Python 2 and 3.
  """
  return list(range(*args, **kwargs))


PYTHON2 = sys.version_info.major == 2
if PYTHON2:
  builtins = sys.modules["__builtin__"]
else:
  import builtins


xrange = getattr(builtins, "xrange", range)
xzip = getattr(it, "izip", zip)
xzip_longest = getattr(it, "izip_longest", getattr(it, "zip_longest", None))
xmap = getattr(it, "imap", map)
xfilter = getattr(it, "ifilter", filter)


STR_TYPES = (getattr(builtins, "basestring", str),)
INT_TYPES = (int, getattr(builtins, "long", None)) if PYTHON2 else (int,)
SOME_GEN_TYPES = (types.GeneratorType, xrange(0).__class__, enumerate, xzip,
                  xzip_longest, xmap, xfilter)
NEXT_NAME = "next" if PYTHON2 else "__next__"
HAS_MATMUL = sys.version_info >= (3,5)


def iteritems(dictionary):
  """
  Function to use the generator-based items iterator over built-in
  dictionaries in both Python 2 and 3.
  """
  try:
    return getattr(dictionary, "iteritems")()
  except AttributeError:
    return iter(getattr(dictionary, "items")())


def itervalues(dictionary):
  """
  Function to use the generator-based value iterator over built-in
  dictionaries in both Python 2 and 3.
  """
  try:
    return getattr(dictionary, "itervalues")()
  except AttributeError:
    return iter(getattr(dictionary, "values")())


def im_func(method):
  """ Gets the function from the method in both Python 2 and 3. """
  return getattr(method, "im_func", method)


def meta(*bases, **kwargs):
  """
  Allows unique syntax similar to Python 3 for working with metaclasses in
  both Python 2 and Python 3.

  Examples
  --------
  >>> class BadMeta(type): # An usual metaclass definition
  ...   def __new__(mcls, name, bases, namespace):
  ...     if "bad" not in namespace: # A bad constraint
  ...       raise Exception("Oops, not bad enough")
  ...     value = len(name) # To ensure this metaclass is called again
  ...     def really_bad(self):
  ...       return self.bad() * value
  ...     namespace["really_bad"] = really_bad
  ...     return super(BadMeta, mcls).__new__(mcls, name, bases, namespace)
  ...
  >>> class Bady(meta(object, metaclass=BadMeta)):
  ...   def bad(self):
  ...     return "HUA "
  ...
  >>> class BadGuy(Bady):
  ...   def bad(self):
  ...     return "R"
  ...
  >>> issubclass(BadGuy, Bady)
  True
  >>> Bady().really_bad() # Here value = 4
  'HUA HUA HUA HUA '
  >>> BadGuy().really_bad() # Called metaclass ``__new__`` again, so value = 6
  'RRRRRR'

  """
  metaclass = kwargs.get("metaclass", type)
  if not bases:
    bases = (object,)
  class NewMeta(type):
    def __new__(mcls, name, mbases, namespace):
      if name:
        return metaclass.__new__(metaclass, name, bases, namespace)
      return super(NewMeta, mcls).__new__(mcls, "", mbases, {})
  return NewMeta("", tuple(), {})
