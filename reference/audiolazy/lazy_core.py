# -*- coding: utf-8 -*-
# This file is part of AudioLazy, the signal processing Python package.
# Copyright (C) 2012-2016 Danilo de Jesus da Silva Bellini
#
# AudioLazy is free software: you can redistribute it and/or modify
# it under the terms of the GNU General Public License as published by
# the Free Software Foundation, version 3 of the License.
#
# This program is distributed in the hope that it will be useful,
# but WITHOUT ANY WARRANTY; without even the implied warranty of
# MERCHANTABILITY or FITNESS FOR A PARTICULAR PURPOSE. See the
# GNU General Public License for more details.
#
# You should have received a copy of the GNU General Public License
# along with this program. If not, see <http://www.gnu.org/licenses/>.
"""
Core classes module
"""

import sys
import operator
try:
  from collections.abc import Iterable
except ImportError:
  from collections import Iterable
from abc import ABCMeta
import itertools as it

# Audiolazy internal imports
from .lazy_compat import STR_TYPES, HAS_MATMUL, iteritems, itervalues

__all__ = ["OpMethod", "AbstractOperatorOverloaderMeta", "MultiKeyDict",
           "StrategyDict"]


class OpMethod(object):
  """
  Internal class to represent an operator method metadata.

  You can acess operator methods directly by using the OpMethod.get() class
  method, which always returns a generator from a query.
  This might be helpful if you need to acess the operator module from
  symbols. Given an instance "op", it has the following data:

  ========= ===========================================================
  Attribute Contents (and an example with OpMethod.get("__radd__"))
  ========= ===========================================================
  op.name   Operator name string, e.g. ``"radd"``.
  op.dname  Dunder name string, e.g. ``"__radd__"``.
  op.func   Function reference, e.g. ``operator.__add__``.
  op.symbol Operator symbol if in a code as a string, e.g. ``"+"``.
  op.rev    Boolean telling if the operator is reversed, e.g. ``True``.
  op.arity  Number of operands, e.g. ``2``.
  ========= ===========================================================

  See the ``OpMethod.get`` docstring for more information and examples.

  """
  _all = {}

  @classmethod
  def get(cls, key="all", without=None):
    """
    Returns a list with every OpMethod instance that match the key.

    The valid values for query parameters are:

    * Operator method names such as ``add`` or ``radd`` or ``pos``, with or
      without the double underscores. These would select only one operator;
    * Strings with the operator symbols such as ``"+"``, ``"&"`` or ``"**"``.
      These would select all the binary, reversed binary and unary operators
      when these apply;
    * ``"all"`` for selecting every operator available;
    * ``"r"`` gets only the reversed operators;
    * ``1`` or ``"1"`` for unary operators;
    * ``2`` or ``"2"`` for binary operators (including reversed binary);
    * ``None`` for no operators at all;
    * Operator functions from the ``operator`` module with the double
      underscores (e.g. ``operator.__add__``), for all the operations
      that use the operator function (it and the reversed);

    Parameters
    ----------
    key :
      A query value, a string with whitespace-separated query names, or an
      iterable with valid query values (as listed above). This parameter
      defaults to "all".
    without :
      The same as key, but used to tell the query something that shouldn't
      appear in the result. Defaults to None.

    Returns
    -------
    Generator with all OpMethod instances that matches the query once, keeping
    the order in which it is asked for. For a given symbol with 3 operator
    methods (e.g., "+", which yields __add__, __radd__ and __pos__), the
    yielding order is <binary>, <reversed binary> and <unary>.

    Examples
    --------
    >>> list(OpMethod.get("*")) # By symbol
    [<mul operator method ('*' symbol)>, <rmul operator method ('*' symbol)>]
    >>> OpMethod.get(">>")
    <generator object ... at 0x...>
    >>> len(list(_)) # Found __rshift__ and __rrshift__, as a generator
    2
    >>> next(OpMethod.get("__add__")).func(2, 3) # By name, finds 2 + 3
    5
    >>> next(OpMethod.get("rsub")).symbol # Name is without underscores
    '-'
    >>> mod = list(OpMethod.get("%%"))
    >>> mod[0].rev # Is it reversed? The __mod__ isn't.
    False
    >>> mod[1].rev # But the __rmod__ is!
    True
    >>> mod[1].arity # Number of operands, the __rmod__ is binary
    2
    >>> add = list(OpMethod.get("+"))
    >>> add[2].arity # Unary "+"
    1
    >>> add[2] is next(OpMethod.get("pos"))
    True
    >>> import operator
    >>> next(OpMethod.get(operator.add)).symbol # Using the operator function
    '+'
    >>> len(list(OpMethod.get(operator.add))) # __add__ and __radd__
    2
    >>> len(list(OpMethod.get("<< >>"))) # Multiple inputs
    4
    >>> len(list(OpMethod.get("<< >>", without="r"))) # Without reversed
    2
    >>> list(OpMethod.get(["+", "&"], without=[operator.add, "r"]))
    [<pos operator method ('+' symbol)>, <and operator method ('&' symbol)>]
    >>> len(set(OpMethod.get(2, without=["- + *", "%%", "r"])))
    %s
    >>> len(set(OpMethod.get("all"))) # How many operator methods there are?
    %s

    """ % (15, 35) if HAS_MATMUL else (14, 33)
    ignore = set() if without is None else set(cls.get(without))
    if key is None:
      return
    if isinstance(key, STR_TYPES) or not isinstance(key, Iterable):
      key = [key]
    key = it.chain.from_iterable(el.split() if isinstance(el, STR_TYPES)
                                            else [el] for el in key)
    for op_descr in key:
      try:
        for op in cls._all[op_descr]:
          if op not in ignore:
            yield op
      except KeyError:
        if op_descr in ["div", "__div__", "rdiv", "__rdiv__"]:
          raise ValueError("Use only 'truediv' for division")
        raise ValueError("Operator '{}' unknown".format(op_descr))

  @classmethod
  def _insert(cls, name, symbol):
    self = cls()
    self.name = name
    self.symbol = symbol
    self.rev = name.startswith("r") and name != "rshift"
    self.dname = "__{}__".format(name) # Dunder name
    self.arity = 1 if name in ["pos", "neg", "invert"] else 2
    self.func = getattr(operator, "__{}__".format(name[self.rev:]))

    # Updates the "all" dictionary
    keys = ["all", self.symbol, self.name, self.dname, self.func,
            self.arity, str(self.arity)]
    if self.rev:
      keys.append("r")
    for key in keys:
      if key not in cls._all:
        cls._all[key] = [self]
      else:
        cls._all[key].append(self)

  @classmethod
  def _initialize(cls):
    """
    Internal method to initialize the class by creating all
    the operator metadata to be used afterwards.
    """
    op_symbols = """
      + add radd pos
      - sub rsub neg
      * mul rmul
      / truediv rtruediv
      // floordiv rfloordiv
      % mod rmod
      ** pow rpow
      >> rshift rrshift
      << lshift rlshift
      ~ invert
      & and rand
      | or ror
      ^ xor rxor
      < lt
      <= le
      == eq
      != ne
      > gt
      >= ge
    """.strip().splitlines()
    if HAS_MATMUL:
      op_symbols.append("@ matmul rmatmul")
    for op_line in op_symbols:
      symbol, names = op_line.split(None, 1)
      for name in names.split():
        cls._insert(name, symbol)

  def __repr__(self):
    return "<{} operator method ('{}' symbol)>".format(self.name, self.symbol)


# Creates all operators
OpMethod._initialize()


class AbstractOperatorOverloaderMeta(ABCMeta):
  """
  Abstract metaclass for classes with massively overloaded operators.

  Dunders dont't appear within "getattr" nor "getattribute", and they should
  be inside the class dictionary, not the class instance one, otherwise they
  won't be found by the usual mechanism. That's why we have to be eager here.
  You need a concrete class inherited from this one, and the "abstract"
  enforcement and specification is:

  - Override __operators__ and __without__ with a ``OpMethod.get()`` valid
    query inputs, see that method docstring for more information and examples.
    Its a good idea to tell all operators that will be used, including the
    ones that should be defined in the instance namespace, since the
    metaclass will enforce their existance without overwriting.

    These should be overridden by a string or a list with all operator names,
    symbols or operator functions (from the `operator` module) to be
    overloaded (or neglect, in the __without__).

    - When using names, reversed operators should be given explicitly.
    - When using symbols the reversed operators and the unary are implicit.
    - When using operator functions, the ooperators and the unary are
      implicit.

    By default, __operators__ is "all" and __without__ is None.

  - All operators should be implemented by the metaclass hierarchy or by
    the class directly, and the class has priority when both exists,
    neglecting the method builder in this case.

  - There are three method builders which should be written in the concrete
    metaclass: ``__binary__``, ``__rbinary__`` and ``__unary__``.
    All receives 2 parameters (the class being instantiated and a OpMethod
    instance) and should return a function for the specific dunder, probably
    doing so based on general-use templates.

  Note
  ----
  Don't use "div"! In Python 2.x it'll be a copy of truediv.

  """
  __operators__ = "all"
  __without__ = None

  def __new__(mcls, name, bases, namespace):
    cls = super(AbstractOperatorOverloaderMeta,
                mcls).__new__(mcls, name, bases, namespace)

    # Inserts each operator into the class
    for op in OpMethod.get(mcls.__operators__, without=mcls.__without__):
      if op.dname not in namespace: # Added manually shouldn't use template

        # Creates the dunder method
        dunder = {(False, 1): mcls.__unary__,
                  (False, 2): mcls.__binary__,
                  (True, 2): mcls.__rbinary__,
                 }[op.rev, op.arity](cls, op)

        # Abstract enforcement
        if not callable(dunder):
          msg = "Class '{}' has no builder/template for operator method '{}'"
          raise TypeError(msg.format(cls.__name__, op.dname))

        # Inserts the dunder into the class
        dunder.__name__ = op.dname
        setattr(cls, dunder.__name__, dunder)
      else:
        dunder = namespace[op.dname]

      if sys.version_info.major == 2 and op.name in ["truediv", "rtruediv"]:
        new_name = op.dname.replace("true", "")
        if new_name not in namespace: # If wasn't insert manually
          setattr(cls, new_name, dunder)

    return cls

  # The 3 methods below should be overloaded, but they shouldn't be
  # "abstractmethod" since it's unuseful (and perhaps undesirable)
  # when there could be only one type of operator being massively overloaded.
  def __binary__(cls, op):
    """
    This method should be overridden to return the dunder for the given
    operator function.

    """
    return NotImplemented
  __unary__ = __rbinary__ = __binary__


class MultiKeyDict(dict):
  """
  Multiple keys dict.

  Can be thought as an "inversible" dict where you can ask for the one
  hashable value from one of the keys. By default it iterates through the
  values, if you need an iterator for all tuples of keys,
  use iterkeys method instead.

  Examples
  --------
  Assignments one by one:

  >>> mk = MultiKeyDict()
  >>> mk[1] = 3
  >>> mk[2] = 3
  >>> mk
  {(1, 2): 3}
  >>> mk[4] = 2
  >>> mk[1] = 2
  >>> len(mk)
  2
  >>> mk[1]
  2
  >>> mk[2]
  3
  >>> mk[4]
  2
  >>> sorted(mk)
  [2, 3]
  >>> sorted(mk.keys())
  [(2,), (4, 1)]

  Casting from another dict:

  >>> mkd = MultiKeyDict({1:4, 2:5, -7:4})
  >>> len(mkd)
  2
  >>> sorted(mkd)
  [4, 5]
  >>> del mkd[2]
  >>> len(mkd)
  1
  >>> sorted(list(mkd.keys())[0]) # Sorts the only key tuple
  [-7, 1]
  >>> del mkd[-7]
  >>> len(mkd) # Again, that's the amount of values, not of keys!
  1

  """
  def __init__(self, *args, **kwargs):
    self._keys_dict = {}
    self._inv_dict = {}
    super(MultiKeyDict, self).__init__()
    for key, value in iteritems(dict(*args, **kwargs)):
      self[key] = value

  def __getitem__(self, key):
    if isinstance(key, tuple): # Avoid errors with IPython
      return super(MultiKeyDict, self).__getitem__(key)
    return super(MultiKeyDict, self).__getitem__(self._keys_dict[key])

  def __setitem__(self, key, value):
    # We want only tuples
    if not isinstance(key, tuple):
      key = (key,)

    # Finds the full new tuple keys
    if value in self._inv_dict:
      key = self._inv_dict[value] + key

    # Remove duplicated keys (last insertion has priority)
    key_list = []
    for k in reversed(key):
      if k not in key_list:
        key_list.append(k)
    key = tuple(reversed(key_list))

    # Remove the overwritten data
    for k in key:
      if k in self._keys_dict:
        MultiKeyDict.__delitem__(self, k)

    # Do the assignment
    for k in key:
      self._keys_dict[k] = key
    self._inv_dict[value] = key
    super(MultiKeyDict, self).__setitem__(key, value)

  def __delitem__(self, key):
    key_tuple = self._keys_dict[key]
    value = self[key]
    new_key = tuple(k for k in key_tuple if k != key)

    # Remove the old data
    del self._keys_dict[key]
    del self._inv_dict[value]
    super(MultiKeyDict, self).__delitem__(key_tuple)

    # Do the assignment (when it makes sense)
    if len(new_key) > 0:
      for k in new_key:
        self._keys_dict[k] = new_key
      self._inv_dict[value] = new_key
      super(MultiKeyDict, self).__setitem__(new_key, value)

  def __iter__(self):
    return iter(self._inv_dict)

  def key2keys(self, key):
    """ Tuple with every key that points to the same value. """
    return self._keys_dict[key]

  def value2keys(self, value):
    """
    Tuple with every key that points to the given value.
    Result might be empty.
    """
    return self._inv_dict.get(value, tuple())


class StrategyDict(MultiKeyDict):
  """
  Strategy dictionary manager creator with default, mainly done for callables
  and multiple implementation algorithms / models.

  Each strategy might have multiple names. The names can be any hashable.
  The "strategy" method creates a decorator for the given strategy names, see
  its docstrings for more details on this.

  The default strategy is the attribute StrategyDict.default, and might be
  anything from outside the dictionary values. The default strategy is the
  first strategy you insert, unless the instance attribute already exists.

  The instances iterates through its values (i.e., for each strategy, not its
  names). You can type something like this to find all StrategyDict instances
  from the package::

  .. code-block:: python

    import audiolazy
    sorted(k for k, v in vars(audiolazy).items()
             if isinstance(v, audiolazy.StrategyDict))

  Examples
  --------
  >>> sd = StrategyDict()
  >>> @sd.strategy("sum") # First strategy is default
  ... def sd(a, b, c):
  ...     return a + b + c
  >>> @sd.strategy("min", "m") # Multiple names
  ... def sd(a, b, c):
  ...     return min(a, b, c)
  >>> sd(2, 5, 0)
  7
  >>> sd["min"](2, 5, 0)
  0
  >>> sd["m"](7, -5, -2)
  -5
  >>> sd.default = sd["min"]
  >>> sd(-19, 1e18, 0)
  -19

  Note
  ----
  The StrategyDict constructor creates a new class inheriting from
  StrategyDict, and then instantiates it before returning the requested
  instance. This singleton subclassing is needed for docstring
  personalization.
  """
  def __new__(self, name="strategy_dict_unnamed_instance"):
    """
    Creates a new StrategyDict class and returns an instance of it.
    The new class is needed to ensure it'll have a personalized docstring.
    """
    class StrategyDictInstance(StrategyDict):

      def __new__(cls, name=name):
        del StrategyDictInstance.__new__ # Should be called only once
        return MultiKeyDict.__new__(StrategyDictInstance)

      def __init__(self, name=name):
        self.__name__ = name
        super(StrategyDict, self).__init__()

      @property
      def __doc__(self):
        from .lazy_text import small_doc
        docbase = "This is a StrategyDict instance object called\n" \
                  "``{0}``. Strategies stored: {1}.\n"
        doc = [docbase.format(self.__name__, len(self))]

        pairs = sorted(iteritems(self))
        if self.default not in list(self.values()):
          pairs = it.chain(pairs, [(tuple(), self.default)])

        for key_tuple, value in pairs:
          # First find the part of the docstring related to the keys
          strategies = ["{0}.{1}".format(self.__name__, name)
                        for name in key_tuple]
          if len(strategies) == 0:
            doc.extend("\nDefault unnamed strategy")
          else:
            if value == self.default:
              strategies[0] += " (Default)"
            doc.extend(["\n**Strategy ", strategies[0], "**.\n"]),
            if len(strategies) == 2:
              doc.extend(["An alias for it is ``", strategies[1], "``.\n"])
            elif len(strategies) > 2:
              doc.extend(["Aliases available are ``",
                          "``, ``".join(strategies[1:]), "``.\n"])

          # Get first description paragraph as the docstring related to value
          doc.append("Docstring starts with:\n")
          doc.extend(small_doc(value, indent="\n  "))
          doc.append("\n")

        doc.append("\nNote"
                   "\n----\n"
                   "This docstring is self-generated, see the StrategyDict\n"
                   "class and the strategies docs for more details.\n"
                  )
        return "".join(doc)

    return StrategyDictInstance(name)

  default = lambda *args, **kwargs: NotImplemented

  def strategy(self, *names, **kwargs):
    """
    StrategyDict wrapping method for adding a new strategy.

    Parameters
    ----------
    *names :
      Positional arguments with all names (strings) that could be used to
      call the strategy to be added, to be used both as key items and as
      attribute names.
    keep_name :
      Boolean keyword-only parameter for choosing whether the ``__name__``
      attribute of the decorated/wrapped function should be changed or kept.
      Defaults to False (i.e., changes the name by default).

    Returns
    -------
    A decorator/wrapper function to be used once on the new strategy to be
    added.

    Example
    -------
    Let's create a StrategyDict that knows its name:

    >>> txt_proc = StrategyDict("txt_proc")

    Add a first strategy ``swapcase``, using this method as a decorator
    factory:

    >>> @txt_proc.strategy("swapcase")
    ... def txt_proc(txt):
    ...   return txt.swapcase()

    Let's do it again, but wrapping the strategy functions inline. First two
    strategies have multiple names, the last keeps the function name, which
    would otherwise be replaced by the first given name:

    >>> txt_proc.strategy("lower", "low")(lambda txt: txt.lower())
    {(...): <function ... at 0x...>, (...): <function ... at 0x...>}
    >>> txt_proc.strategy("upper", "up")(lambda txt: txt.upper())
    {...}
    >>> txt_proc.strategy("keep", keep_name=True)(lambda txt: txt)
    {...}

    We can now iterate through the strategies to call them or see their
    function names

    >>> sorted(st("Just a Test") for st in txt_proc)
    ['JUST A TEST', 'Just a Test', 'jUST A tEST', 'just a test']
    >>> sorted(st.__name__ for st in txt_proc) # Just the first name
    ['<lambda>', 'lower', 'swapcase', 'upper']

    Calling a single strategy:

    >>> txt_proc.low("TeStInG")
    'testing'
    >>> txt_proc["upper"]("TeStInG")
    'TESTING'
    >>> txt_proc("TeStInG") # Default is the first: swapcase
    'tEsTiNg'
    >>> txt_proc.default("TeStInG")
    'tEsTiNg'
    >>> txt_proc.default = txt_proc.up # Manually changing the default
    >>> txt_proc("TeStInG")
    'TESTING'

    Hint
    ----
    Default strategy is the one stored as the ``default`` attribute, you can
    change or remove it at any time. When removing all keys that are assigned
    to the default strategy, the default attribute will be removed from the
    StrategyDict instance as well. The first strategy added afterwards is the
    one that will become the new default, unless the attribute is created or
    changed manually.
    """
    def decorator(func):
      keep_name = kwargs.pop("keep_name", False)
      if kwargs:
        key = next(iter(kwargs))
        raise TypeError("Unknown keyword argument '{}'".format(key))
      if not keep_name:
        func.__name__ = str(names[0])
      self[names] = func
      return self
    return decorator

  def __setitem__(self, key, value):
    keys = key if isinstance(key, tuple) else (key,)
    for k in keys:
      try:
        del self[k] # Also remove self.default if it loses all keys
      except KeyError:
        pass # Not found!
    super(StrategyDict, self).__setitem__(keys, value)
    for k in keys:
      setattr(self, k, value)
    if "default" not in vars(self):
      self.default = value

  def __delitem__(self, key):
    keys = self.key2keys(key)
    value = self[keys]
    super(StrategyDict, self).__delitem__(key)
    if hasattr(self, key) and getattr(self, key) == value:
      super(StrategyDict, self).__delattr__(key)
    if len(keys) == 1 and value == self.default:
      super(StrategyDict, self).__delattr__("default")

  def __delattr__(self, attr):
    try:
      if self[attr] == getattr(self, attr): # Have both
        del self[attr] # Removes both
      else: # Have both but they're different
        setattr(self, attr, self[attr]) # Put the attribute back
    except KeyError: # Del a non-strategy attribute
      super(StrategyDict, self).__delattr__(attr)

  def __call__(self, *args, **kwargs):
    return self.default(*args, **kwargs)

  def __iter__(self):
    return itervalues(self)
