# -*- coding: utf-8 -*-
# This file is part of AudioLazy, the signal processing Python package.
# Copyright (C) 2012-2016 Danilo de Jesus da Silva Bellini
#
# AudioLazy is free software: you can redistribute it and/or modify
# it under the terms of the GNU General Public License as published by
# the Free Software Foundation, version 3 of the License.
#
# This program is distributed in the hope that it will be useful,
# but WITHOUT ANY WARRANTY; without even the implied warranty of
# MERCHANTABILITY or FITNESS FOR A PARTICULAR PURPOSE. See the
# GNU General Public License for more details.
#
# You should have received a copy of the GNU General Public License
# along with this program. If not, see <http://www.gnu.org/licenses/>.
"""
Peripheral auditory modeling module
"""

import math

# Audiolazy internal imports
from .lazy_core import StrategyDict
from .lazy_misc import elementwise
from .lazy_filters import z, CascadeFilter, ZFilter, resonator
from .lazy_math import pi, exp, cos, sin, sqrt, factorial
from .lazy_stream import thub
from .lazy_compat import xzip
from .lazy_text import format_docstring

__all__ = ["erb", "gammatone", "gammatone_erb_constants", "phon2dB"]


erb = StrategyDict("erb")
erb._doc_template = """
  Equivalent Rectangular Model (ERB) from {authors} ({year}).

  This is a model for a single filter bandwidth for auditory filter modeling,
  taken from:
  {__doc__}
  Parameters
  ----------
  freq :
    Frequency, in rad/sample if second parameter is given, in Hz otherwise.
  Hz :
    Frequency conversion "Hz" from sHz function, i.e., ``sHz(rate)[1]``.
    If this value is not given, both input and output will be in Hz.

  Returns
  -------
  Frequency range size, in rad/sample if second parameter is given, in Hz
  otherwise.
"""

@erb.strategy("gm90", "glasberg_moore_90", "glasberg_moore")
@elementwise("freq", 0)
@format_docstring(erb._doc_template, authors="Glasberg and Moore", year=1990)
def erb(freq, Hz=None):
  """
    ``B. R. Glasberg and B. C. J. Moore, "Derivation of auditory filter
    shapes from notched-noise data". Hearing Research, vol. 47, 1990, pp.
    103-108.``
  """
  if Hz is None:
    if freq < 7: # Perhaps user tried something up to 2 * pi
      raise ValueError("Frequency out of range.")
    Hz = 1
  fHz = freq / Hz
  result = 24.7 * (4.37e-3 * fHz + 1.)
  return result * Hz


@erb.strategy("mg83", "moore_glasberg_83")
@elementwise("freq", 0)
@format_docstring(erb._doc_template, authors="Moore and Glasberg", year=1983)
def erb(freq, Hz=None):
  """
    ``B. C. J. Moore and B. R. Glasberg, "Suggested formulae for calculating
    auditory filter bandwidths and excitation patterns". J. Acoust. Soc.
    Am., 74, 1983, pp. 750-753.``
  """
  if Hz is None:
    if freq < 7: # Perhaps user tried something up to 2 * pi
      raise ValueError("Frequency out of range.")
    Hz = 1
  fHz = freq / Hz
  result = 6.23e-6 * fHz ** 2 + 93.39e-3 * fHz + 28.52
  return result * Hz


def gammatone_erb_constants(n):
  """
  Constants for using the real bandwidth in the gammatone filter, given its
  order. Returns a pair :math:`(x, y) = (1/a_n, c_n)`.

  Based on equations from:

    ``Holdsworth, J.; Patterson, R.; Nimmo-Smith, I.; Rice, P. Implementing a
    GammaTone Filter Bank. In: SVOS Final Report, Annex C, Part A: The
    Auditory Filter Bank. 1988.``

  First returned value is a bandwidth compensation for direct use in the
  gammatone formula:

  >>> x, y = gammatone_erb_constants(4)
  >>> central_frequency = 1000
  >>> round(x, 3)
  1.019
  >>> bandwidth = x * erb["moore_glasberg_83"](central_frequency)
  >>> round(bandwidth, 2)
  130.52

  Second returned value helps us find the ``3 dB`` bandwidth as:

  >>> x, y = gammatone_erb_constants(4)
  >>> central_frequency = 1000
  >>> bandwidth3dB = x * y * erb["moore_glasberg_83"](central_frequency)
  >>> round(bandwidth3dB, 2)
  113.55

  """
  tnt = 2 * n - 2
  return (factorial(n - 1) ** 2 / (pi * factorial(tnt) * 2 ** -tnt),
          2 * (2 ** (1. / n) - 1) ** .5
         )


gammatone = StrategyDict("gammatone")
gammatone._doc_template = """
  Gammatone filter based on {model}.

  Model is described in:
  {__doc__}
  Parameters
  ----------
  freq :
    Frequency, in rad/sample.
  bandwidth :
    Frequency range size, in rad/sample. See ``gammatone_erb_constants`` for
    more information about how you can find this.
  {extra_params}
  Returns
  -------
  A CascadeFilter object with ZFilter filters, each of them a pole-conjugated
  IIR filter model. Gain is normalized to have peak with 0 dB (1.0 amplitude).
  The total number of poles is twice the value of eta (conjugated pairs), one
  pair for each ZFilter.
"""


@gammatone.strategy("sampled")
@format_docstring(gammatone._doc_template, model="a sampled impulse response",
  extra_params="\n  ".join([
    "phase :", "  Phase, in radians. Defaults to zero (cosine)."
    "eta :", "  Gammatone filter order. Defaults to 4.", "" # Skip a line
  ]),
)
def gammatone(freq, bandwidth, phase=0, eta=4):
  """
    ``Bellini, D. J. S. "AudioLazy: Processamento digital de sinais
    expressivo e em tempo real", IME-USP, Mastership Thesis, 2013.``

  This implementation have the impulse response (for each sample ``n``,
  keeping the input parameter names):

  .. math::

    n^{{eta - 1}} e^{{- bandwidth \cdot n}} \cos(freq \cdot n + phase)
  """
  assert eta >= 1

  A = exp(-bandwidth)
  numerator = cos(phase) - A * cos(freq - phase) * z ** -1
  denominator = 1 - 2 * A * cos(freq) * z ** -1 + A ** 2 * z ** -2
  filt = (numerator / denominator).diff(n=eta-1, mul_after=-z)

  # Filter is done, but the denominator might have some numeric loss
  f0 = ZFilter(filt.numpoly) / denominator
  f0 /= abs(f0.freq_response(freq)) # Max gain == 1.0 (0 dB)
  fn = 1 / denominator
  fn /= abs(fn.freq_response(freq))
  return CascadeFilter([f0] + [fn] * (eta - 1))


@gammatone.strategy("slaney")
@format_docstring(gammatone._doc_template, extra_params="",
                  model="Malcolm Slaney's IIR cascading filter model")
def gammatone(freq, bandwidth):
  """
    ``Slaney, M. "An Efficient Implementation of the Patterson-Holdsworth
    Auditory Filter Bank", Apple Computer Technical Report #35, 1993.``
  """
  A = exp(-bandwidth)
  cosw = cos(freq)
  sinw = sin(freq)
  sig = [1., -1.]
  coeff = [cosw + s1 * (sqrt(2) + s2) * sinw for s1 in sig for s2 in sig]
  numerator = [1 - A * c * z ** -1 for c in coeff]
  denominator = 1 - 2 * A * cosw * z ** -1 + A ** 2 * z ** -2

  filt = CascadeFilter(num / denominator for num in numerator)
  return CascadeFilter(f / abs(f.freq_response(freq)) for f in filt)


@gammatone.strategy("klapuri")
@format_docstring(gammatone._doc_template, extra_params="",
                  model="Anssi Klapuri's IIR cascading filter model")
def gammatone(freq, bandwidth):
  """
    ``A. Klapuri, "Multipich Analysis of Polyphonic Music and Speech Signals
    Using an Auditory Model". IEEE Transactions on Audio, Speech and Language
    Processing, vol. 16, no. 2, 2008, pp. 255-266.``
  """
  bw = thub(bandwidth, 1)
  bw2 = thub(bw * 2, 4)
  freq = thub(freq, 4)
  resons = [resonator.z_exp, resonator.poles_exp] * 2
  return CascadeFilter(reson(freq, bw2) for reson in resons)


phon2dB = StrategyDict("phon2dB")


@phon2dB.strategy("iso226", "iso226_2003", "iso_fdis_226_2003")
def phon2dB(loudness=None):
  """
  Loudness in phons to Sound Pressure Level (SPL) in dB using the
  ISO/FDIS 226:2003 model.

  This function needs Scipy, as ``scipy.interpolate.UnivariateSpline``
  objects are used as interpolators.

  Parameters
  ----------
  loudness :
    The loudness value in phons to be converted, or None (default) to get
    the threshold of hearing.

  Returns
  -------
  A callable that returns the SPL dB value for each given frequency in hertz.

  Note
  ----
  See ``phon2dB.iso226.schema`` and ``phon2dB.iso226.table`` to know the
  original frequency used for the result. The result for any other value is
  an interpolation (spline). Don't trust on values nor lower nor higher than
  the frequency limits there (20Hz and 12.5kHz) as they're not part of
  ISO226 and no value was collected to estimate them (they're just a spline
  interpolation to reach 1000dB at -30Hz and 32kHz). Likewise, the trustful
  loudness input range is from 20 to 90 phon, as written on ISO226, although
  other values aren't found by a spline interpolation but by using the
  formula on section 4.1 of ISO226.

  Hint
  ----
  The ``phon2dB.iso226.table`` also have other useful information, such as
  the threshold values in SPL dB.

  """
  from scipy.interpolate import UnivariateSpline

  table = phon2dB.iso226.table
  schema = phon2dB.iso226.schema
  freqs = [row[schema.index("freq")] for row in table]

  if loudness is None: # Threshold levels
    spl = [row[schema.index("threshold")] for row in table]

  else: # Curve for a specific phon value
    def get_pressure_level(freq, alpha, loudness_base, threshold):
      return 10 / alpha * math.log10(
        4.47e-3 * (10 ** (.025 * loudness) - 1.14) +
        (.4 * 10 ** ((threshold + loudness_base) / 10 - 9)) ** alpha
      ) - loudness_base + 94

    spl = [get_pressure_level(**dict(xzip(schema, args))) for args in table]

  interpolator = UnivariateSpline(freqs, spl, s=0)
  interpolator_low = UnivariateSpline([-30] + freqs, [1e3] + spl, s=0)
  interpolator_high = UnivariateSpline(freqs + [32000], spl + [1e3], s=0)

  @elementwise("freq", 0)
  def freq2dB_spl(freq):
    if freq < 20:
      return interpolator_low(freq).tolist()
    if freq > 12500:
      return interpolator_high(freq).tolist()
    return interpolator(freq).tolist()
  return freq2dB_spl

# ISO226 Table 1
phon2dB.iso226.schema = ("freq", "alpha", "loudness_base", "threshold")
phon2dB.iso226.table = (
  (   20, 0.532, -31.6, 78.5),
  (   25, 0.506, -27.2, 68.7),
  ( 31.5, 0.480, -23.0, 59.5),
  (   40, 0.455, -19.1, 51.1),
  (   50, 0.432, -15.9, 44.0),
  (   63, 0.409, -13.0, 37.5),
  (   80, 0.387, -10.3, 31.5),
  (  100, 0.367,  -8.1, 26.5),
  (  125, 0.349,  -6.2, 22.1),
  (  160, 0.330,  -4.5, 17.9),
  (  200, 0.315,  -3.1, 14.4),
  (  250, 0.301,  -2.0, 11.4),
  (  315, 0.288,  -1.1,  8.6),
  (  400, 0.276,  -0.4,  6.2),
  (  500, 0.267,   0.0,  4.4),
  (  630, 0.259,   0.3,  3.0),
  (  800, 0.253,   0.5,  2.2),
  ( 1000, 0.250,   0.0,  2.4),
  ( 1250, 0.246,  -2.7,  3.5),
  ( 1600, 0.244,  -4.1,  1.7),
  ( 2000, 0.243,  -1.0, -1.3),
  ( 2500, 0.243,   1.7, -4.2),
  ( 3150, 0.243,   2.5, -6.0),
  ( 4000, 0.242,   1.2, -5.4),
  ( 5000, 0.242,  -2.1, -1.5),
  ( 6300, 0.245,  -7.1,  6.0),
  ( 8000, 0.254, -11.2, 12.6),
  (10000, 0.271, -10.7, 13.9),
  (12500, 0.301,  -3.1, 12.3),
)
