# -*- coding: utf-8 -*-
# This file is part of AudioLazy, the signal processing Python package.
# Copyright (C) 2012-2016 Danilo de Jesus da Silva Bellini
#
# AudioLazy is free software: you can redistribute it and/or modify
# it under the terms of the GNU General Public License as published by
# the Free Software Foundation, version 3 of the License.
#
# This program is distributed in the hope that it will be useful,
# but WITHOUT ANY WARRANTY; without even the implied warranty of
# MERCHANTABILITY or FITNESS FOR A PARTICULAR PURPOSE. See the
# GNU General Public License for more details.
#
# You should have received a copy of the GNU General Public License
# along with this program. If not, see <http://www.gnu.org/licenses/>.
"""
Resources for opening data from Wave (.wav) files
"""

from __future__ import division

from struct import Struct
import wave

# Audiolazy internal imports
from .lazy_stream import Stream

__all__ = ["WavStream"]


class WavStream(Stream):
  """
  A Stream related to a Wave file

  A WavStream instance is a Stream with extra attributes:

  * ``rate``: sample rate in samples per second;
  * ``channels``: number of channels (1 for mono, 2 for stereo);
  * ``bits``: bits per sample, a value in ``[8, 16, 24, 32]``.

  Example
  -------

  .. code-block:: python

    song = WavStream("my_song.wav")
    with AudioIO(True) as player:
      player.play(song, rate=song.rate, channels=song.channels)

  Note
  ----
  Stereo data is kept serialized/flat, so the resulting Stream yields first a
  sample from one channel, then the sample from the other channel for that
  same time instant. Use ``Stream.blocks(2)`` to get a Stream with the stereo
  blocks.
  """
  _unpackers = {
    8 : ord, # The only unsigned
    16: (lambda a: lambda v: a(v)[0])(Struct("<h").unpack),
    24: (lambda a: lambda v: a(b"\x00" + v)[0] >> 8)(Struct("<i").unpack),
    32: (lambda a: lambda v: a(v)[0])(Struct("<i").unpack),
  }

  def __init__(self, wave_file, keep=False):
    """
    Loads a Wave audio file.

    Parameters
    ----------
    wave_file :
      Wave file name or a already open wave file as a file-behaved object.
    keep :
      This flag allows keeping the data on the original range and datatype,
      keeping each sample an int, as stored. False by default, meaning that
      the resulting range is already scaled (but not normalized) to fit
      [-1,1). When True, data scales from ``- (2 ** (bits - 1))`` to
      ``2 ** (bits - 1) - 1`` (signed int), except for 8 bits, where it
      scales from ``0`` to ``255`` (unsigned).
    """
    self._file = wave.open(wave_file, "rb")
    self.rate = self._file.getframerate()
    self.channels = self._file.getnchannels()
    self.bits = 8 * self._file.getsampwidth()

    def block_reader():
      """ Raw wave data block generator (following block align) """
      w = self._file
      try:
        while True:
          el = w.readframes(1)
          if not el:
            break
          yield el
      finally:
        w.close()

    def sample_reader():
      """ Raw wave data single sample generator (1 or 2 per block) """
      # Mono
      if self.channels == 1:
        return block_reader()

      # Stereo
      sample_width = self.bits // 8
      def stereo_sample_reader():
        for el in block_reader():
          yield el[:sample_width]
          yield el[sample_width:]

      return stereo_sample_reader()

    def data_generator():
      """ Wave data generator with data already converted to float or int """
      unpacker = WavStream._unpackers[self.bits]

      if keep:

        for el in sample_reader():
          yield unpacker(el)

      else: # Output data should be in [-1;1) range

        d = 1 << (self.bits - 1) # Divide by this number to normalize
        if self.bits == 8: # Unpacker for 8 bits still gives unsigned data
          unpacker = lambda v: ord(v) - 128

        for el in sample_reader():
          yield unpacker(el) / d

    super(WavStream, self).__init__(data_generator())
